// Package plan defines the explicit, replayable description of one simulated
// run (configuration, client scripts, faults) and the recorded history. It does
// not import olric so that the orchestrator can use it without the overlay.
package plan

// ClusterSpec is the cluster part of a plan. Zero values mean olric defaults unless noted.
type ClusterSpec struct {
	Members           int    `json:"members"`
	ReplicaCount      int    `json:"replica_count"`
	ReadQuorum        int    `json:"read_quorum"`
	WriteQuorum       int    `json:"write_quorum"`
	MemberCountQuorum int    `json:"member_count_quorum"`
	Partitions        uint64 `json:"partitions"`
	ReadRepair        bool   `json:"read_repair"`
	AsyncReplication  bool   `json:"async_replication,omitempty"`
	TableSize         int    `json:"table_size"`
	MaxIdleTableMs    int    `json:"max_idle_table_ms,omitempty"`

	RoutingPushMs int `json:"routing_push_ms"`
	BalancerMs    int `json:"balancer_ms"`
	JanitorMs     int `json:"janitor_ms"`
	CompactionMs  int `json:"compaction_ms"`
	EvictWorkers  int `json:"evict_workers"`

	// cluster-wide DMap defaults
	MaxKeys        int                 `json:"max_keys,omitempty"`
	MaxInuse       int                 `json:"max_inuse,omitempty"`
	LRUSamples     int                 `json:"lru_samples,omitempty"`
	EvictionPolicy string              `json:"eviction_policy,omitempty"`
	MaxIdleMs      int                 `json:"max_idle_ms,omitempty"`
	TTLMs          int                 `json:"ttl_ms,omitempty"`
	Custom         map[string]DMapSpec `json:"custom,omitempty"`

	// memberlist knobs (ms); zero = DefaultLocalConfig
	ProbeIntervalMs int `json:"probe_interval_ms,omitempty"`
	ProbeTimeoutMs  int `json:"probe_timeout_ms,omitempty"`
	GossipMs        int `json:"gossip_ms,omitempty"`
	SuspicionMult   int `json:"suspicion_mult,omitempty"`
	PushPullMs      int `json:"push_pull_ms,omitempty"`

	// internal client (member -> member) knobs
	ClientReadTimeoutMs int `json:"client_read_timeout_ms,omitempty"`
	ClientMaxRetries    int `json:"client_max_retries,omitempty"` // -1 disables
	ClientPoolSize      int `json:"client_pool_size,omitempty"`
}

type DMapSpec struct {
	MaxKeys        int    `json:"max_keys,omitempty"`
	MaxInuse       int    `json:"max_inuse,omitempty"`
	LRUSamples     int    `json:"lru_samples,omitempty"`
	EvictionPolicy string `json:"eviction_policy,omitempty"`
	MaxIdleMs      int    `json:"max_idle_ms,omitempty"`
	TTLMs          int    `json:"ttl_ms,omitempty"`
	TableSize      int    `json:"table_size,omitempty"`
}

type NetSpec struct {
	MinLatUs        int64  `json:"min_lat_us"`
	MaxLatUs        int64  `json:"max_lat_us"`
	SegmentPermille uint64 `json:"segment_permille"`
	PktDropPermille uint64 `json:"pkt_drop_permille"`
	PktDupPermille  uint64 `json:"pkt_dup_permille"`
}

type YieldSpec struct {
	ArmPermille  uint64 `json:"arm_permille"`
	ParkPermille uint64 `json:"park_permille"`
	MaxUs        int64  `json:"max_us"`
}

// Op is one scripted step of a client. Unused fields are omitted.
type Op struct {
	K       string   `json:"k"`
	DM      string   `json:"dm,omitempty"`
	Key     string   `json:"key,omitempty"`
	Keys    []string `json:"keys,omitempty"`
	Val     string   `json:"val,omitempty"`
	NX      bool     `json:"nx,omitempty"`
	XX      bool     `json:"xx,omitempty"`
	EX      int64    `json:"ex,omitempty"`   // ms (sent as seconds; must be whole seconds for EX)
	PX      int64    `json:"px,omitempty"`   // ms
	EXAT    int64    `json:"exat,omitempty"` // ms from invocation, converted to absolute
	PXAT    int64    `json:"pxat,omitempty"` // ms from invocation, converted to absolute
	D       int64    `json:"d,omitempty"`    // think time before the op, microseconds
	Dur     int64    `json:"dur,omitempty"`  // ms: sleep, expire timeout, lock timeout, lease
	Dur2    int64    `json:"dur2,omitempty"` // ms: lock deadline
	Delta   int64    `json:"delta,omitempty"`
	FDelta  float64  `json:"fdelta,omitempty"`
	M       int      `json:"m,omitempty"` // member index (control ops, probes)
	Flag    bool     `json:"flag,omitempty"`
	Ref     int      `json:"ref,omitempty"` // index of an earlier op of this client (unlock/lease -> lock)
	Groups  [][]int  `json:"groups,omitempty"`
	Pattern string   `json:"pattern,omitempty"`
	Count   int      `json:"count,omitempty"`
	Args    []string `json:"args,omitempty"`
	Tag     string   `json:"tag,omitempty"`
}

// Script is the sequential program of one client.
// Kind: "emb" embedded client on member M, "cc" cluster client, "raw" RESP
// connection to member M, "ctl" controller (faults, waits, probes).
type Script struct {
	ID   int    `json:"id"`
	Kind string `json:"kind"`
	M    int    `json:"m"`
	Ops  []Op   `json:"ops"`
}

type Phase struct {
	Name    string   `json:"name"`
	Yields  bool     `json:"yields"` // yields armed during this phase
	Clients []Script `json:"clients"`
}

type Plan struct {
	Prop     string           `json:"prop"`
	Seed     uint64           `json:"seed"`
	Tier     string           `json:"tier"`
	Variant  string           `json:"variant,omitempty"`
	Cluster  ClusterSpec      `json:"cluster"`
	Net      NetSpec          `json:"net"`
	Yield    YieldSpec        `json:"yield"`
	NumCPU   int              `json:"num_cpu"`
	DMap     string           `json:"dmap"`
	Phases   []Phase          `json:"phases"`
	MaxSteps uint64           `json:"max_steps"`
	Params   map[string]int64 `json:"params,omitempty"`
}

// Rec is the record of one executed op.
type Rec struct {
	Phase  int      `json:"ph"`
	Client int      `json:"c"`
	Idx    int      `json:"i"`
	Op     Op       `json:"op"`
	Inv    uint64   `json:"inv"`
	Ret    uint64   `json:"ret"`
	TInv   int64    `json:"tinv"` // simulated ns since run start
	TRet   int64    `json:"tret"`
	Err    string   `json:"err,omitempty"` // "" ok; class names below; "other:<msg>"
	Val    string   `json:"val,omitempty"`
	Has    bool     `json:"has,omitempty"` // a value is present (get / getput old value)
	Int    int64    `json:"int,omitempty"`
	Float  float64  `json:"float,omitempty"`
	TTL    int64    `json:"ttl,omitempty"`
	TS     int64    `json:"ts,omitempty"`
	N      int      `json:"n,omitempty"`
	Keys   []string `json:"keys,omitempty"`
	Copies []Copy    `json:"copies,omitempty"`
	Snap   *Snapshot `json:"snap,omitempty"`
	// RtInv / RtRet: a hash over the routing signatures (last applied routing table) of all running
	// members when a Delete was invoked and when it returned; they differ when a routing table was
	// pushed, or the membership changed, while the operation ran
	RtInv uint64 `json:"rt_inv,omitempty"`
	RtRet uint64 `json:"rt_ret,omitempty"`
	Info   string   `json:"info,omitempty"`
}

// Copy is one stored copy of a key as seen with DM.GETENTRY on one member.
type Copy struct {
	Member int    `json:"m"`
	Kind   string `json:"kind"` // "primary" or "backup"
	Found  bool   `json:"found"`
	Val    string `json:"val,omitempty"`
	TTL    int64  `json:"ttl,omitempty"`
	TS     int64  `json:"ts,omitempty"`
	Err    string `json:"err,omitempty"`
	Routed string `json:"routed,omitempty"` // "owner", "backup", "" according to the member's own routing view
}

// Error classes.
const (
	ENotFound      = "notfound"
	EKeyFound      = "keyfound"
	ELockNotAcq    = "locknotacquired"
	ENoSuchLock    = "nosuchlock"
	EWriteQ        = "writequorum"
	EReadQ         = "readquorum"
	EClusterQ      = "clusterquorum"
	EKeyTooLarge   = "keytoolarge"
	EEntryTooLarge = "entrytoolarge"
	ETimeout       = "timeout"
	EServerGone    = "servergone"
)

type Violation struct {
	Class   string `json:"class"`
	Subject string `json:"subject"`
	Detail  string `json:"detail"`
}

// Result is what a worker process writes for one run.
type Result struct {
	Prop        string           `json:"prop"`
	Seed        uint64           `json:"seed"`
	Status      string           `json:"status"` // pass | violation | inconclusive | infra
	Reason      string           `json:"reason,omitempty"`
	Violations  []Violation      `json:"violations,omitempty"`
	Fingerprint uint64           `json:"fingerprint"`
	Steps       uint64           `json:"steps"`
	SimNs       int64            `json:"sim_ns"`
	WallMs      int64            `json:"wall_ms"`
	Counters    map[string]int64 `json:"counters"`
	Nontrivial  bool             `json:"nontrivial"`
	NTKey       string           `json:"nt_key,omitempty"` // distinctness key of the non-trivial case
	History     []Rec            `json:"history,omitempty"`
	Trace       string           `json:"trace,omitempty"`
}

// ---- routing snapshots (C13, C02, C03) ------------------------------------------------------

type Route struct {
	Owners  []string `json:"o"` // primary owners list; the last one is the current owner
	Backups []string `json:"b"`
}

type MemberInfo struct {
	Name      string `json:"name"`
	ID        uint64 `json:"id"`
	Birthdate int64  `json:"birth"`
	Coord     bool   `json:"coord,omitempty"`
}

type PartStat struct {
	Length     int      `json:"len"`
	PrevOwners []string `json:"prev,omitempty"`
	Backups    []string `json:"backups,omitempty"`
	DMaps      map[string]DMapStat `json:"dmaps,omitempty"`
}

type DMapStat struct {
	Length    int `json:"len"`
	NumTables int `json:"tables"`
	Allocated int `json:"alloc"`
	Inuse     int `json:"inuse"`
	Garbage   int `json:"garbage"`
}

type MemberSnap struct {
	Idx        int                 `json:"idx"`
	Addr       string              `json:"addr"`
	Self       MemberInfo          `json:"self"`
	Coord      MemberInfo          `json:"coordinator"`
	Local      map[uint64]Route    `json:"local"`       // own routing view (white box)
	ClusterRT  map[uint64]Route    `json:"cluster_rt"`  // CLUSTER.ROUTINGTABLE answered by this member
	RTErr      string              `json:"rt_err,omitempty"`
	MembersCmd []MemberInfo        `json:"members_cmd"` // CLUSTER.MEMBERS answered by this member
	Known      []MemberInfo        `json:"known"`       // STATS cluster_members
	Primary    map[uint64]PartStat `json:"primary"`     // STATS partitions
	Backup     map[uint64]PartStat `json:"backup"`      // STATS backups
	Err        string              `json:"err,omitempty"`
}

type Snapshot struct {
	AtNs    int64            `json:"at_ns"`
	Running []int            `json:"running"`
	Members []MemberSnap     `json:"members"`
	Client  map[uint64]Route `json:"client,omitempty"` // a ClusterClient's routing table
	CErr    string           `json:"client_err,omitempty"`
	Stable  bool             `json:"stable"`
	Why     string           `json:"why,omitempty"`
}
