// instrument rewrites the non-test Go files of the olric working tree into a
// scratch directory and emits a go build -overlay file. Nothing in /repo is
// touched. Rewrites (all mechanical, all generic patterns so that code added
// by a change under test is covered too):
//
//	sync.Mutex / sync.RWMutex      -> simsync.Mutex / simsync.RWMutex
//	net.Listen                     -> simnet.Listen
//	net.Dialer, tls.DialWithDialer -> simnet.Dialer, simnet.TLSDialWithDialer
//	runtime.NumCPU                 -> simrt.NumCPU
//	func entry in state-holding packages: simrt.Yield(<site id>)
package main

import (
	"encoding/json"
	"flag"
	"fmt"
	"go/ast"
	"go/parser"
	"go/printer"
	"go/token"
	"hash/fnv"
	"os"
	"path/filepath"
	"sort"
	"strconv"
	"strings"
)

var yieldPkgs = map[string]bool{
	".":                             true,
	"internal/dmap":                 true,
	"internal/kvstore":              true,
	"internal/cluster/routingtable": true,
	"internal/cluster/balancer":     true,
	"internal/pubsub":               true,
	"internal/locker":               true,
}

var skipDirs = []string{"cmd", "internal/testutil", "internal/testcluster", "docker", ".git"}

type rewrite struct{ pkg, name, newPkg, newName string }

var rewrites = []rewrite{
	{"sync", "Mutex", "simsync", "Mutex"},
	{"sync", "RWMutex", "simsync", "RWMutex"},
	{"net", "Listen", "simnet", "Listen"},
	{"net", "Dialer", "simnet", "Dialer"},
	{"tls", "DialWithDialer", "simnet", "TLSDialWithDialer"},
	{"runtime", "NumCPU", "simrt", "NumCPU"},
}

var importPath = map[string]string{
	"simsync": "verif/sim/simsync",
	"simnet":  "verif/sim/simnet",
	"simrt":   "verif/sim/simrt",
}

func main() {
	repo := flag.String("repo", "/repo", "olric working tree")
	// where the harness module's replace directive points; when the working tree to be checked is a
	// different directory (a scratch worktree), every source file of it is mapped over the module's
	module := flag.String("module", "/repo", "directory the go.mod replace directive names")
	out := flag.String("out", "", "scratch output directory")
	extra := flag.String("merge", "", "overlay json (flat map) to merge, e.g. the runtime overlay")
	noYield := flag.Bool("noyield", false, "do not insert yields")
	acc := flag.String("acc", "", "directory of accessor files named <pkgdir with __>__<file>.go.txt (root = 'root')")
	flag.Parse()
	if *out == "" {
		fmt.Fprintln(os.Stderr, "instrument: -out required")
		os.Exit(2)
	}
	replace := map[string]string{}
	if *extra != "" {
		b, err := os.ReadFile(*extra)
		if err != nil {
			die(err)
		}
		if err := json.Unmarshal(b, &replace); err != nil {
			die(err)
		}
	}
	sites := map[uint32]string{}
	nfiles, nmutex, nyield := 0, 0, 0
	err := filepath.Walk(*repo, func(path string, info os.FileInfo, err error) error {
		if err != nil {
			return err
		}
		rel, _ := filepath.Rel(*repo, path)
		if info.IsDir() {
			for _, s := range skipDirs {
				if rel == s {
					return filepath.SkipDir
				}
			}
			return nil
		}
		if !strings.HasSuffix(path, ".go") || strings.HasSuffix(path, "_test.go") {
			return nil
		}
		dir := filepath.Dir(rel)
		fset := token.NewFileSet()
		f, err := parser.ParseFile(fset, path, nil, parser.ParseComments)
		if err != nil {
			return err
		}
		changed := false
		used := map[string]bool{}
		// selector rewrites
		ast.Inspect(f, func(n ast.Node) bool {
			se, ok := n.(*ast.SelectorExpr)
			if !ok {
				return true
			}
			id, ok := se.X.(*ast.Ident)
			if !ok || id.Obj != nil {
				return true
			}
			for _, rw := range rewrites {
				if id.Name == rw.pkg && se.Sel.Name == rw.name && imports(f, rw.pkg) {
					id.Name = rw.newPkg
					se.Sel.Name = rw.newName
					used[rw.newPkg] = true
					changed = true
					if rw.pkg == "sync" {
						nmutex++
					}
				}
			}
			return true
		})
		// yields
		if !*noYield && yieldPkgs[dir] {
			for _, d := range f.Decls {
				fd, ok := d.(*ast.FuncDecl)
				if !ok || fd.Body == nil || fd.Name.Name == "init" {
					continue
				}
				name := dir + ":" + recvName(fd) + fd.Name.Name
				// every statement that reads the clock is a scheduling point as well: between "is
				// it expired?" and "how long has it left?" time may pass
				nclock := 0
				fd.Body.List = clockYields(fd.Body.List, func() ast.Stmt {
					nclock++
					cname := fmt.Sprintf("%s#clock%d", name, nclock)
					h := fnv.New32a()
					h.Write([]byte(cname))
					cid := h.Sum32()
					for sites[cid] != "" && sites[cid] != cname {
						cid++
					}
					sites[cid] = cname
					nyield++
					return &ast.ExprStmt{X: &ast.CallExpr{
						Fun:  &ast.SelectorExpr{X: ast.NewIdent("simrt"), Sel: ast.NewIdent("Yield")},
						Args: []ast.Expr{&ast.BasicLit{Kind: token.INT, Value: strconv.FormatUint(uint64(cid), 10)}},
					}}
				})
				h := fnv.New32a()
				h.Write([]byte(name))
				id := h.Sum32()
				for sites[id] != "" && sites[id] != name {
					id++
				}
				sites[id] = name
				call := &ast.ExprStmt{X: &ast.CallExpr{
					Fun:  &ast.SelectorExpr{X: ast.NewIdent("simrt"), Sel: ast.NewIdent("Yield")},
					Args: []ast.Expr{&ast.BasicLit{Kind: token.INT, Value: strconv.FormatUint(uint64(id), 10)}},
				}}
				fd.Body.List = append([]ast.Stmt{call}, fd.Body.List...)
				used["simrt"] = true
				changed = true
				nyield++
			}
		}
		if !changed {
			if *module != *repo {
				replace[filepath.Join(*module, rel)] = path
			}
			return nil
		}
		fixImports(f, used)
		dst := filepath.Join(*out, "olric", rel)
		if err := os.MkdirAll(filepath.Dir(dst), 0o755); err != nil {
			return err
		}
		w, err := os.Create(dst)
		if err != nil {
			return err
		}
		// drop comments position-sensitivity problems: print with comments kept
		if err := (&printer.Config{Mode: printer.UseSpaces | printer.TabIndent, Tabwidth: 8}).Fprint(w, fset, f); err != nil {
			return fmt.Errorf("%s: %v", rel, err)
		}
		w.Close()
		replace[filepath.Join(*module, rel)] = dst
		nfiles++
		return nil
	})
	if err != nil {
		die(err)
	}
	if *module != *repo {
		// source files the module directory has and the checked tree has not are masked
		filepath.Walk(*module, func(path string, info os.FileInfo, err error) error {
			if err != nil || info.IsDir() || !strings.HasSuffix(path, ".go") || strings.HasSuffix(path, "_test.go") {
				return nil
			}
			rel, _ := filepath.Rel(*module, path)
			if strings.HasPrefix(rel, ".git") {
				return nil
			}
			if _, err := os.Stat(filepath.Join(*repo, rel)); err != nil {
				replace[path] = ""
			}
			return nil
		})
	}
	if *acc != "" {
		ents, err := os.ReadDir(*acc)
		if err != nil {
			die(err)
		}
		for _, e := range ents {
			if !strings.HasSuffix(e.Name(), ".go.txt") {
				continue
			}
			parts := strings.Split(strings.TrimSuffix(e.Name(), ".txt"), "__")
			dir := strings.Join(parts[:len(parts)-1], "/")
			if parts[0] == "root" {
				dir = strings.Join(parts[1:len(parts)-1], "/")
			}
			replace[filepath.Join(*module, dir, parts[len(parts)-1])] = filepath.Join(*acc, e.Name())
		}
	}
	ob, _ := json.MarshalIndent(map[string]any{"Replace": replace}, "", " ")
	if err := os.WriteFile(filepath.Join(*out, "overlay.json"), ob, 0o644); err != nil {
		die(err)
	}
	var ids []int
	for id := range sites {
		ids = append(ids, int(id))
	}
	sort.Ints(ids)
	var sb strings.Builder
	for _, id := range ids {
		fmt.Fprintf(&sb, "%d %s\n", id, sites[uint32(id)])
	}
	os.WriteFile(filepath.Join(*out, "yield_sites.txt"), []byte(sb.String()), 0o644)
	fmt.Printf("instrument: %d files rewritten, %d mutex types, %d yield sites\n", nfiles, nmutex, nyield)
}

func die(err error) {
	fmt.Fprintln(os.Stderr, "instrument:", err)
	os.Exit(2)
}

func recvName(fd *ast.FuncDecl) string {
	if fd.Recv == nil || len(fd.Recv.List) == 0 {
		return ""
	}
	t := fd.Recv.List[0].Type
	for {
		switch x := t.(type) {
		case *ast.StarExpr:
			t = x.X
			continue
		case *ast.IndexExpr:
			t = x.X
			continue
		case *ast.Ident:
			return x.Name + "."
		}
		return "?."
	}
}

func localName(is *ast.ImportSpec) string {
	p, _ := strconv.Unquote(is.Path.Value)
	if is.Name != nil {
		return is.Name.Name
	}
	if i := strings.LastIndex(p, "/"); i >= 0 {
		return p[i+1:]
	}
	return p
}

func imports(f *ast.File, name string) bool {
	for _, is := range f.Imports {
		if localName(is) == name {
			p, _ := strconv.Unquote(is.Path.Value)
			switch name {
			case "sync":
				return p == "sync"
			case "net":
				return p == "net"
			case "tls":
				return p == "crypto/tls"
			case "runtime":
				return p == "runtime"
			}
		}
	}
	return false
}

func fixImports(f *ast.File, add map[string]bool) {
	// which package identifiers are still referenced?
	ref := map[string]bool{}
	ast.Inspect(f, func(n ast.Node) bool {
		if se, ok := n.(*ast.SelectorExpr); ok {
			if id, ok := se.X.(*ast.Ident); ok && id.Obj == nil {
				ref[id.Name] = true
			}
		}
		return true
	})
	check := map[string]bool{"sync": true, "net": true, "tls": true, "runtime": true}
	var firstImport *ast.GenDecl
	var decls []ast.Decl
	for _, d := range f.Decls {
		gd, ok := d.(*ast.GenDecl)
		if !ok || gd.Tok != token.IMPORT {
			decls = append(decls, d)
			continue
		}
		var specs []ast.Spec
		for _, s := range gd.Specs {
			is := s.(*ast.ImportSpec)
			ln := localName(is)
			if check[ln] && !ref[ln] && is.Name == nil {
				continue
			}
			specs = append(specs, s)
		}
		gd.Specs = specs
		if firstImport == nil {
			firstImport = gd
		}
		if len(specs) > 0 || gd == firstImport {
			decls = append(decls, gd)
		}
	}
	if firstImport == nil {
		firstImport = &ast.GenDecl{Tok: token.IMPORT, Lparen: 1}
		decls = append([]ast.Decl{firstImport}, decls...)
	}
	var names []string
	for n := range add {
		names = append(names, n)
	}
	sort.Strings(names)
	for _, n := range names {
		firstImport.Specs = append(firstImport.Specs, &ast.ImportSpec{Path: &ast.BasicLit{Kind: token.STRING, Value: strconv.Quote(importPath[n])}})
	}
	if len(firstImport.Specs) > 1 && !firstImport.Lparen.IsValid() {
		firstImport.Lparen = firstImport.Pos()
		firstImport.Rparen = firstImport.End()
	}
	f.Decls = decls
}

// clockYields inserts a yield (made by mk) before every statement of the list - and of the nested
// blocks - whose own expressions call time.Now, time.Until or time.Since. Function literals are
// left alone (their bodies run on other goroutines or later).
func clockYields(list []ast.Stmt, mk func() ast.Stmt) []ast.Stmt {
	var out []ast.Stmt
	for _, st := range list {
		switch s := st.(type) {
		case *ast.BlockStmt:
			s.List = clockYields(s.List, mk)
		case *ast.IfStmt:
			for cur := s; cur != nil; {
				cur.Body.List = clockYields(cur.Body.List, mk)
				switch e := cur.Else.(type) {
				case *ast.IfStmt:
					cur = e
				case *ast.BlockStmt:
					e.List = clockYields(e.List, mk)
					cur = nil
				default:
					cur = nil
				}
			}
		case *ast.ForStmt:
			s.Body.List = clockYields(s.Body.List, mk)
		case *ast.RangeStmt:
			s.Body.List = clockYields(s.Body.List, mk)
		case *ast.SwitchStmt:
			clockYieldsClauses(s.Body, mk)
		case *ast.TypeSwitchStmt:
			clockYieldsClauses(s.Body, mk)
		case *ast.SelectStmt:
			clockYieldsClauses(s.Body, mk)
		}
		if readsClock(st) {
			out = append(out, mk())
		}
		out = append(out, st)
	}
	return out
}

func clockYieldsClauses(b *ast.BlockStmt, mk func() ast.Stmt) {
	for _, c := range b.List {
		switch cc := c.(type) {
		case *ast.CaseClause:
			cc.Body = clockYields(cc.Body, mk)
		case *ast.CommClause:
			cc.Body = clockYields(cc.Body, mk)
		}
	}
}

// readsClock looks at the statement's own expressions, not at nested blocks or function literals.
func readsClock(st ast.Stmt) bool {
	switch st.(type) {
	case *ast.LabeledStmt, *ast.GoStmt, *ast.DeferStmt, *ast.SelectStmt:
		return false
	}
	found := false
	ast.Inspect(st, func(n ast.Node) bool {
		switch x := n.(type) {
		case *ast.BlockStmt, *ast.FuncLit:
			return false
		case *ast.CallExpr:
			if se, ok := x.Fun.(*ast.SelectorExpr); ok {
				if id, ok := se.X.(*ast.Ident); ok && id.Name == "time" && id.Obj == nil &&
					(se.Sel.Name == "Now" || se.Sel.Name == "Until" || se.Sel.Name == "Since") {
					found = true
				}
			}
		}
		return !found
	})
	return found
}
