// check is the orchestrator: it rebuilds the simulation worker from /repo's
// current working tree (through the generated overlay), fans seeded runs out
// over the cores (one OS process per run), minimises the first violation,
// writes the replay file and the evidence, and prints VIOLATION /
// KNOWN-FINDING lines.
//
// Exit codes: 0 property held on everything explored (possibly with
// KNOWN-FINDING lines), 1 violation, 2 infrastructure trouble.
package main

import (
	"bufio"
	"bytes"
	"encoding/json"
	"flag"
	"fmt"
	"os"
	"os/exec"
	"path/filepath"
	"regexp"
	"runtime"
	"sort"
	"strconv"
	"strings"
	"syscall"
	"sync"
	"time"

	"verif/plan"
	"verif/props"
)

var (
	verifDir = "/verif"
	repoDir  = "/repo"
)

type built struct {
	dir    string
	worker string
}

func env() []string {
	e := os.Environ()
	e = append(e, "GOFLAGS=-mod=mod", "GOPROXY=off", "GOSUMDB=off", "GOTOOLCHAIN=local", "GODEBUG=asyncpreemptoff=1")
	return e
}

func runCmd(dir string, name string, args ...string) (string, error) {
	c := exec.Command(name, args...)
	c.Dir = dir
	c.Env = env()
	var out bytes.Buffer
	c.Stdout = &out
	c.Stderr = &out
	err := c.Run()
	return out.String(), err
}

func infra(format string, a ...any) {
	fmt.Fprintf(os.Stderr, "INFRA: "+format+"\n", a...)
	os.Exit(2)
}

// build instruments /repo's current tree and compiles the worker into a scratch dir.
func build() *built {
	dir, err := os.MkdirTemp("", "verif-build-")
	if err != nil {
		infra("mktemp: %v", err)
	}
	bin := filepath.Join(verifDir, "bin")
	os.MkdirAll(bin, 0o755)
	rto := filepath.Join(bin, "rtoverlay")
	if _, err := os.Stat(filepath.Join(rto, "rt_overlay.json")); err != nil {
		os.MkdirAll(rto, 0o755)
		if out, err := runCmd(verifDir, "python3", "scripts/gen_rtoverlay.py", rto); err != nil {
			infra("rtoverlay: %v\n%s", err, out)
		}
	}
	instr := filepath.Join(bin, "instrument")
	if out, err := runCmd(verifDir, "go1.26.8", "build", "-o", instr, "./cmd/instrument"); err != nil {
		infra("build instrument: %v\n%s", err, out)
	}
	if out, err := runCmd(verifDir, instr, "-repo", repoDir, "-out", dir, "-merge", filepath.Join(rto, "rt_overlay.json"), "-acc", filepath.Join(verifDir, "accessors")); err != nil {
		infra("instrument: %v\n%s", err, out)
	}
	w := filepath.Join(dir, "simworker")
	if out, err := runCmd(verifDir, "go1.26.8", "test", "-c", "-overlay", filepath.Join(dir, "overlay.json"), "-o", w, "./worker"); err != nil {
		os.RemoveAll(dir)
		infra("build worker from %s: %v\n%s", repoDir, err, out)
	}
	return &built{dir: dir, worker: w}
}

type outcome struct {
	seed uint64
	plan *plan.Plan
	res  *plan.Result
	err  string // infra problem text
}

// runPlan executes one plan in a fresh worker process.
func runPlan(b *built, p *plan.Plan, tag string, history, trace bool, wallMax time.Duration) *outcome {
	pf := filepath.Join(b.dir, "plan-"+tag+".json")
	rf := filepath.Join(b.dir, "res-"+tag+".json")
	pb, _ := json.Marshal(p)
	os.WriteFile(pf, pb, 0o644)
	defer os.Remove(pf)
	defer os.Remove(rf)
	args := []string{"-test.run", "^TestSim$", "-test.timeout", "0", "-plan", pf, "-out", rf, "-wallmax", wallMax.String()}
	if history {
		args = append(args, "-history")
	}
	if trace {
		args = append(args, "-trace")
	}
	c := exec.Command(b.worker, args...)
	c.Env = env()
	var errb bytes.Buffer
	c.Stderr = &errb
	c.Stdout = &errb
	// The worker has one P and no preemption, so its own watchdog cannot run while a goroutine
	// spins: the orchestrator enforces the wall-clock limit from outside (SIGQUIT for a goroutine
	// dump, then SIGKILL).
	hung := false
	runErr := c.Start()
	if runErr == nil {
		done := make(chan error, 1)
		go func() { done <- c.Wait() }()
		select {
		case runErr = <-done:
		case <-time.After(wallMax + 15*time.Second):
			hung = true
			c.Process.Signal(syscall.SIGQUIT)
			select {
			case runErr = <-done:
			case <-time.After(5 * time.Second):
				c.Process.Kill()
				runErr = <-done
			}
		}
	}
	o := &outcome{seed: p.Seed, plan: p}
	if hung {
		dump := errb.String()
		o.res = &plan.Result{Prop: p.Prop, Seed: p.Seed, Status: "hung", Reason: spinningFrame(dump) + "\n" + head(dump, 6000)}
		if !strings.HasPrefix(o.res.Reason, "spinning in ") {
			o.err = "worker hung: " + head(o.res.Reason, 3000)
		}
		return o
	}
	rb, rerr := os.ReadFile(rf)
	if rerr != nil {
		// the worker died without a verdict: a panic inside olric code kills the process
		o.res = &plan.Result{Prop: p.Prop, Seed: p.Seed, Status: "crashed", Reason: crashText(errb.String())}
		if runErr == nil {
			o.err = "worker exited 0 without a result"
		}
		return o
	}
	var res plan.Result
	if err := json.Unmarshal(rb, &res); err != nil {
		o.err = "bad result json: " + err.Error()
		return o
	}
	o.res = &res
	if res.Status == "infra" {
		o.err = res.Reason + "\n" + tail(errb.String(), 3000)
	}
	return o
}

// crashText keeps the part of a dying worker's stderr that names the panic or fatal error.
func crashText(s string) string {
	for _, marker := range []string{"panic: ", "fatal error: ", "runtime: out of memory"} {
		if i := strings.Index(s, marker); i >= 0 {
			return head(s[i:], 4000)
		}
	}
	return tail(s, 4000)
}

func tail(s string, n int) string {
	if len(s) > n {
		return s[len(s)-n:]
	}
	return s
}

func head(s string, n int) string {
	if len(s) > n {
		return s[:n] + "..."
	}
	return s
}

func mixSeed(base uint64, i uint64) uint64 {
	x := base + 0x9E3779B97F4A7C15*(i+1)
	x = (x ^ (x >> 30)) * 0xBF58476D1CE4E5B9
	x = (x ^ (x >> 27)) * 0x94D049BB133111EB
	return (x ^ (x >> 31)) & 0x7fffffffffff
}

// ---- known findings -------------------------------------------------------------------

type finding struct {
	prop    string
	class   string
	subject *regexp.Regexp
	text    string
	fixed   bool
}

func loadFindings() []finding {
	var fs []finding
	f, err := os.Open(filepath.Join(verifDir, "known_findings.txt"))
	if err != nil {
		return nil
	}
	defer f.Close()
	sc := bufio.NewScanner(f)
	for sc.Scan() {
		line := strings.TrimSpace(sc.Text())
		if line == "" || strings.HasPrefix(line, "#") {
			continue
		}
		fd := finding{}
		if strings.HasPrefix(line, "fixed:") {
			fd.fixed = true
			line = strings.TrimSpace(strings.TrimPrefix(line, "fixed:"))
		}
		// property=<id> class=<class> subject=<regexp> :: text
		parts := strings.SplitN(line, "::", 2)
		for _, kv := range strings.Fields(parts[0]) {
			if v, ok := strings.CutPrefix(kv, "property="); ok {
				fd.prop = v
			} else if v, ok := strings.CutPrefix(kv, "class="); ok {
				fd.class = v
			} else if v, ok := strings.CutPrefix(kv, "subject="); ok {
				re, err := regexp.Compile("^(?:" + v + ")$")
				if err != nil {
					fmt.Fprintf(os.Stderr, "known_findings.txt: bad subject regexp %q: %v\n", v, err)
					os.Exit(2)
				}
				fd.subject = re
			} else if !fd.fixed {
				// a blank inside a regexp would silently cut it short (and widen the finding)
				fmt.Fprintf(os.Stderr, "known_findings.txt: stray token %q before '::' (write blanks in a subject as \\s)\n", kv)
				os.Exit(2)
			}
		}
		if len(parts) > 1 {
			fd.text = strings.TrimSpace(parts[1])
		}
		fs = append(fs, fd)
	}
	return fs
}

func matchFinding(fs []finding, prop string, v plan.Violation) *finding {
	for i := range fs {
		f := &fs[i]
		if f.fixed || f.prop != prop || f.class != v.Class {
			continue
		}
		if f.subject != nil && !f.subject.MatchString(v.Subject) {
			continue
		}
		return f
	}
	return nil
}

// unknownViolations returns the violations of a result that no known finding covers.
func unknownViolations(fs []finding, prop string, res *plan.Result, seen map[string]*finding) []plan.Violation {
	var out []plan.Violation
	for _, v := range res.Violations {
		if f := matchFinding(fs, prop, v); f != nil {
			seen[f.class+" "+f.text] = f
			continue
		}
		out = append(out, v)
	}
	if res.Status == "hung" {
		// the worker had to be killed: a goroutine was spinning (a blocked bubble panics instead)
		first := res.Reason
		if i := strings.IndexByte(first, '\n'); i >= 0 {
			first = first[:i]
		}
		v := plan.Violation{Class: "member-wedged", Subject: first, Detail: res.Reason}
		if f := matchFinding(fs, prop, v); f != nil {
			seen[f.class+" "+f.text] = f
		} else {
			out = append(out, v)
		}
	}
	if res.Status == "crashed" {
		v := plan.Violation{Class: "member-crash", Subject: crashSubject(res.Reason), Detail: res.Reason}
		if f := matchFinding(fs, prop, v); f != nil {
			seen[f.class+" "+f.text] = f
		} else {
			out = append(out, v)
		}
	}
	return out
}

var runningRe = regexp.MustCompile(`(?s)goroutine \d+ \[(?:running|runnable)[^\]]*\]:\n(.*?)\n\n`)

// spinningFrame names the innermost olric frame of the goroutine that was running when the
// worker was killed.
func spinningFrame(dump string) string {
	for _, m := range runningRe.FindAllStringSubmatch(dump, -1) {
		if f := frameRe.FindStringSubmatch(m[1]); f != nil {
			return "spinning in " + f[1]
		}
	}
	return "no runnable olric frame (harness hang?)"
}

var panicRe = regexp.MustCompile(`(?m)^(?:panic|fatal error): (.*)$`)
var frameRe = regexp.MustCompile(`(?m)^(github\.com/olric-data/olric[^\s(]*)\(`)

func crashSubject(stderr string) string {
	s := "unknown"
	if m := panicRe.FindStringSubmatch(stderr); m != nil {
		s = head(m[1], 80)
	}
	if m := frameRe.FindStringSubmatch(stderr); m != nil {
		s += " @ " + m[1]
	}
	return s
}

// ---- minimisation -------------------------------------------------------------------------

func clonePlan(p *plan.Plan) *plan.Plan {
	b, _ := json.Marshal(p)
	var q plan.Plan
	json.Unmarshal(b, &q)
	return &q
}

func removeOp(sc *plan.Script, j int) {
	ops := append([]plan.Op(nil), sc.Ops[:j]...)
	for _, o := range sc.Ops[j+1:] {
		if o.K == "unlock" || o.K == "lease" {
			if o.Ref == j {
				continue
			}
			if o.Ref > j {
				o.Ref--
			}
		}
		ops = append(ops, o)
	}
	sc.Ops = ops
}

func planSize(p *plan.Plan) int {
	n := 0
	for _, ph := range p.Phases {
		for _, c := range ph.Clients {
			n += 1 + len(c.Ops)
		}
	}
	return n
}

// sameFailure reports whether res shows a violation of the wanted class (and subject, if it stayed meaningful).
func sameFailure(res *plan.Result, want plan.Violation) bool {
	if res == nil {
		return false
	}
	if want.Class == "member-crash" {
		return res.Status == "crashed" && crashSubject(res.Reason) == want.Subject
	}
	for _, v := range res.Violations {
		if v.Class == want.Class && v.Subject == want.Subject {
			return true
		}
	}
	return false
}

func minimise(b *built, p *plan.Plan, want plan.Violation, budget time.Duration, wallMax time.Duration) *plan.Plan {
	deadline := time.Now().Add(budget)
	cur := clonePlan(p)
	try := func(cands []*plan.Plan) *plan.Plan {
		// run candidates in parallel, accept the smallest failing one
		type r struct {
			p  *plan.Plan
			ok bool
		}
		out := make([]r, len(cands))
		var wg sync.WaitGroup
		sem := make(chan struct{}, runtime.NumCPU())
		for i, c := range cands {
			wg.Add(1)
			sem <- struct{}{}
			go func() {
				defer wg.Done()
				defer func() { <-sem }()
				o := runPlan(b, c, fmt.Sprintf("min-%d-%d", time.Now().UnixNano(), i), false, false, wallMax)
				out[i] = r{c, o.err == "" && sameFailure(o.res, want)}
			}()
		}
		wg.Wait()
		var best *plan.Plan
		for _, x := range out {
			if x.ok && (best == nil || planSize(x.p) < planSize(best)) {
				best = x.p
			}
		}
		return best
	}
	progress := true
	for progress && time.Now().Before(deadline) {
		progress = false
		// 1. drop whole clients / trailing phases
		var cands []*plan.Plan
		for pi := range cur.Phases {
			for ci := range cur.Phases[pi].Clients {
				c := clonePlan(cur)
				cl := c.Phases[pi].Clients
				c.Phases[pi].Clients = append(cl[:ci:ci], cl[ci+1:]...)
				cands = append(cands, c)
			}
		}
		if best := try(cands); best != nil {
			cur, progress = best, true
			continue
		}
		// 2. drop chunks of ops (halves, quarters, singles)
		for _, div := range []int{2, 4, 0} {
			cands = nil
			for pi := range cur.Phases {
				for ci := range cur.Phases[pi].Clients {
					n := len(cur.Phases[pi].Clients[ci].Ops)
					if n == 0 {
						continue
					}
					chunk := 1
					if div > 0 {
						chunk = n / div
						if chunk < 2 {
							continue
						}
					}
					for s := 0; s < n; s += chunk {
						c := clonePlan(cur)
						sc := &c.Phases[pi].Clients[ci]
						for k := min(n, s+chunk) - 1; k >= s; k-- {
							removeOp(sc, k)
						}
						cands = append(cands, c)
					}
				}
			}
			if len(cands) > 400 {
				cands = cands[:400]
			}
			if best := try(cands); best != nil {
				cur, progress = best, true
				break
			}
			if !time.Now().Before(deadline) {
				break
			}
		}
		if progress {
			continue
		}
		// 3. simplify: no yields, no segmentation, zero think times
		cands = nil
		if cur.Yield.ArmPermille > 0 {
			c := clonePlan(cur)
			c.Yield = plan.YieldSpec{}
			cands = append(cands, c)
		}
		if cur.Net.SegmentPermille > 0 {
			c := clonePlan(cur)
			c.Net.SegmentPermille = 0
			cands = append(cands, c)
		}
		if best := try(cands); best != nil {
			cur, progress = best, true
		}
	}
	return cur
}

// ---- main -----------------------------------------------------------------------------------

type replayFile struct {
	Property  string         `json:"property"`
	Seed      uint64         `json:"seed"`
	Violation plan.Violation `json:"violation"`
	Tree      string         `json:"tree"`
	Toolchain string         `json:"toolchain"`
	Minimised bool           `json:"minimised"`
	Fingerprint uint64       `json:"fingerprint"`
	Plan      *plan.Plan     `json:"plan"`
	History   []plan.Rec     `json:"history,omitempty"`
}

func treeID() string {
	h, _ := runCmd(repoDir, "git", "rev-parse", "HEAD")
	d, _ := runCmd(repoDir, "sh", "-c", "git diff | sha1sum | cut -c1-12")
	return strings.TrimSpace(h) + "+" + strings.TrimSpace(d)
}

func main() {
	tier := flag.String("tier", os.Getenv("VERIF_TIER"), "quick | thorough")
	replay := flag.String("replay", "", "replay file")
	seconds := flag.Int("seconds", 0, "override the run budget in seconds")
	maxRuns := flag.Int("runs", 0, "override: stop after this many runs")
	keep := flag.Bool("keep", false, "keep the scratch build directory")
	noMin := flag.Bool("nomin", false, "skip minimisation")
	jobs := flag.Int("j", runtime.NumCPU(), "parallel workers")
	flag.Usage = func() {
		fmt.Fprintln(os.Stderr, "usage: check [flags] <PROPERTY-ID> | selftest-determinism")
		flag.PrintDefaults()
	}
	// allow flags after the positional argument
	var pos []string
	args := os.Args[1:]
	for len(args) > 0 {
		flag.CommandLine.Parse(args)
		args = flag.Args()
		if len(args) > 0 {
			pos = append(pos, args[0])
			args = args[1:]
		}
	}
	if len(pos) != 1 {
		flag.Usage()
		os.Exit(2)
	}
	if *tier == "" {
		*tier = "quick"
	}
	if d := os.Getenv("VERIF_DIR"); d != "" {
		verifDir = d
	}
	if d := os.Getenv("VERIF_REPO"); d != "" {
		repoDir = d
	}
	id := pos[0]
	baseSeed := uint64(1)
	if s := os.Getenv("VERIF_SEED"); s != "" {
		v, err := strconv.ParseUint(s, 10, 64)
		if err != nil {
			iv, err2 := strconv.ParseInt(s, 10, 64)
			if err2 != nil {
				infra("bad VERIF_SEED %q", s)
			}
			v = uint64(iv)
		}
		baseSeed = v
	}
	fmt.Printf("check %s tier=%s VERIF_SEED=%d\n", id, *tier, baseSeed)
	if strings.HasPrefix(id, "genplan:") {
		// genplan:<PROP>:<seed> prints the plan of one run (debugging aid)
		f := strings.Split(id, ":")
		sd, _ := strconv.ParseUint(f[2], 10, 64)
		bs, _ := json.Marshal(props.Generators[f[1]](sd, *tier))
		fmt.Println(string(bs))
		os.Exit(0)
	}
	if id == "warmup" {
		b := build()
		os.RemoveAll(b.dir)
		fmt.Println("warmup: worker builds from the current tree")
		os.Exit(0)
	}
	if id == "selftest-determinism" {
		b := build()
		code := selftestDeterminism(b, baseSeed, *jobs)
		if !*keep {
			os.RemoveAll(b.dir)
		}
		os.Exit(code)
	}
	meta := props.Metas[id]
	gen := props.Generators[id]
	if meta == nil || gen == nil {
		infra("unknown property %s", id)
	}
	t0 := time.Now()
	b := build()
	defer func() {
		if !*keep {
			os.RemoveAll(b.dir)
		}
	}()
	buildS := time.Since(t0).Seconds()
	fmt.Printf("build: %.1fs (%s)\n", buildS, b.dir)
	wallMax := time.Duration(meta.WallMaxS) * time.Second
	if wallMax == 0 {
		wallMax = 120 * time.Second
	}
	findings := loadFindings()

	if *replay != "" {
		code := doReplay(b, id, *replay, findings, wallMax)
		if !*keep {
			os.RemoveAll(b.dir)
		}
		os.Exit(code)
	}

	budget := time.Duration(meta.QuickSec) * time.Second
	if *tier == "thorough" {
		budget = time.Duration(meta.ThoroSec) * time.Second
	}
	if *seconds > 0 {
		budget = time.Duration(*seconds) * time.Second
	}
	deadline := time.Now().Add(budget)

	// fan out
	var mu sync.Mutex
	var outcomes []*outcome
	next := uint64(0)
	var wg sync.WaitGroup
	stop := false
	for w := 0; w < *jobs; w++ {
		wg.Add(1)
		go func() {
			defer wg.Done()
			for {
				mu.Lock()
				if stop || time.Now().After(deadline) || (*maxRuns > 0 && int(next) >= *maxRuns) {
					mu.Unlock()
					return
				}
				i := next
				next++
				mu.Unlock()
				seed := mixSeed(baseSeed, i)
				if meta.Space > 0 {
					seed = (baseSeed%1000000)*1000003 + i
				}
				p := gen(seed, *tier)
				o := runPlan(b, p, fmt.Sprintf("%d", i), false, false, wallMax)
				mu.Lock()
				outcomes = append(outcomes, o)
				// stop early once several unknown violations are in hand
				mu.Unlock()
			}
		}()
	}
	wg.Wait()
	// A run that exceeded its wall-clock limit while 16 workers shared a busy machine is not yet a
	// wedged member: it is repeated alone with three times the limit (the plan is deterministic);
	// only a run that does not finish then either is reported as hung.
	reruns := 0
	for i, o := range outcomes {
		slow := (o.res != nil && o.res.Status == "hung") || strings.Contains(o.err, "watchdog")
		if !slow || reruns >= 6 {
			continue
		}
		reruns++
		o2 := runPlan(b, o.plan, fmt.Sprintf("slow-%d", i), false, false, 3*wallMax)
		if o2.res != nil && o2.res.Status != "hung" && !strings.Contains(o2.err, "watchdog") {
			outcomes[i] = o2
		}
	}
	runS := time.Since(t0).Seconds() - buildS
	sort.Slice(outcomes, func(i, j int) bool { return outcomes[i].seed < outcomes[j].seed })

	// determinism spot check: re-run up to 4 of the executed seeds and compare fingerprints
	detRuns, detDiverged := 0, 0
	for i := 0; i < len(outcomes) && detRuns < 4; i += 1 + len(outcomes)/4 {
		o := outcomes[i]
		if o.res == nil || o.err != "" || o.res.Status == "crashed" {
			continue
		}
		o2 := runPlan(b, o.plan, fmt.Sprintf("det-%d", i), false, false, wallMax)
		if o2.res != nil && o2.err == "" {
			detRuns++
			if o2.res.Fingerprint != o.res.Fingerprint || o2.res.Steps != o.res.Steps {
				detDiverged++
			}
		}
	}

	// aggregate
	ev := newEvidence(id, *tier, baseSeed, meta)
	seenKnown := map[string]*finding{}
	var bad []*outcome
	var badV []plan.Violation
	infraN := 0
	var infraMsg string
	nt := map[string]bool{}
	for _, o := range outcomes {
		if o.err != "" || o.res == nil {
			infraN++
			if infraMsg == "" {
				infraMsg = fmt.Sprintf("seed %d: %s", o.seed, o.err)
			}
			continue
		}
		ev.add(o)
		if o.res.Nontrivial {
			k := o.res.NTKey
			if k == "" {
				k = fmt.Sprintf("%x", o.res.Fingerprint)
			}
			nt[k] = true
		}
		if uv := unknownViolations(findings, id, o.res, seenKnown); len(uv) > 0 {
			bad = append(bad, o)
			badV = append(badV, uv[0])
		}
	}
	ev.Coverage["distinct_nontrivial"] = len(nt)
	if meta.Space > 0 {
		ev.Coverage["configuration_space"] = meta.Space
		ev.Coverage["exhaustive"] = len(nt) >= meta.Space
	}
	ev.Coverage["determinism_reruns"] = detRuns
	ev.Coverage["determinism_diverged"] = detDiverged
	ev.Coverage["infra_failures"] = infraN
	ev.Coverage["build_s"] = round1(buildS)
	ev.Coverage["runs_per_hour"] = int(float64(len(outcomes)) / maxf(runS, 0.001) * 3600)
	var known []string
	for _, f := range seenKnown {
		known = append(known, fmt.Sprintf("property=%s class=%s %s", f.prop, f.class, f.text))
	}
	sort.Strings(known)
	ev.Coverage["known_findings_matched"] = known
	ev.WallS = round1(time.Since(t0).Seconds())
	ev.Violations = len(bad)

	exit := 0
	if len(bad) > 0 {
		// distinct (class, subject-prefix) groups; minimise the first of each, at most 3
		os.MkdirAll(filepath.Join(verifDir, "out", id), 0o755)
		done := map[string]bool{}
		for i, o := range bad {
			v := badV[i]
			if done[v.Class] || len(done) >= 3 {
				continue
			}
			done[v.Class] = true
			path := writeReplay(b, id, o, v, *tier, *noMin, wallMax)
			fmt.Printf("VIOLATION property=%s replay=%s\n", id, path)
			fmt.Printf("  class=%s subject=%s seed=%d\n  %s\n", v.Class, v.Subject, o.seed, head(v.Detail, 1500))
		}
		exit = 1
	}
	for _, k := range known {
		fmt.Printf("KNOWN-FINDING: %s\n", k)
	}
	if len(badV) > 0 {
		cc := map[string]int{}
		for _, v := range badV {
			cc[v.Class]++
		}
		var cl []string
		for c, n := range cc {
			cl = append(cl, fmt.Sprintf("%s=%d", c, n))
		}
		sort.Strings(cl)
		fmt.Printf("violation classes (first per run): %s\n", strings.Join(cl, " "))
		subj := map[string]int{}
		for _, v := range badV {
			if v.Class == "member-crash" || v.Class == "member-wedged" {
				subj[v.Class+": "+v.Subject]++
			}
		}
		for s, n := range subj {
			fmt.Printf("  %dx %s\n", n, s)
		}
	}
	ev.write()
	fmt.Printf("runs=%d nontrivial_distinct=%d violations=%d known=%d infra=%d det=%d/%d diverged wall=%.1fs\n",
		len(outcomes), len(nt), len(bad), len(known), infraN, detDiverged, detRuns, time.Since(t0).Seconds())
	if infraN > 0 {
		fmt.Printf("infra-note: %d run(s) gave no verdict; first: %s\n", infraN, strings.ReplaceAll(head(infraMsg, 700), "\n", " | "))
	}
	if exit == 0 && (len(outcomes) == 0 || infraN*5 > len(outcomes)) {
		fmt.Fprintf(os.Stderr, "INFRA: %d of %d runs failed for infrastructure reasons; first: %s\n", infraN, len(outcomes), head(infraMsg, 3000))
		exit = 2
	}
	if exit == 0 && len(nt) < 2 {
		fmt.Fprintf(os.Stderr, "INFRA: fewer than 2 distinct non-trivial runs (%d)\n", len(nt))
		exit = 2
	}
	if !*keep {
		os.RemoveAll(b.dir)
	}
	os.Exit(exit)
}

func maxf(a, b float64) float64 {
	if a > b {
		return a
	}
	return b
}
func round1(f float64) float64 { return float64(int(f*10+0.5)) / 10 }

func writeReplay(b *built, id string, o *outcome, v plan.Violation, tier string, noMin bool, wallMax time.Duration) string {
	p := o.plan
	minimised := false
	if !noMin {
		budget := 60 * time.Second
		if tier == "thorough" {
			budget = 5 * time.Minute
		}
		q := minimise(b, p, v, budget, wallMax)
		// the minimised plan must fail twice more
		ok := true
		for i := 0; i < 2; i++ {
			oo := runPlan(b, q, fmt.Sprintf("conf-%d", i), false, false, wallMax)
			if !sameFailure(oo.res, v) {
				ok = false
			}
		}
		if ok {
			p, minimised = q, planSize(q) < planSize(p)
		}
	}
	final := runPlan(b, p, "final", true, false, wallMax)
	rf := replayFile{Property: id, Seed: o.seed, Violation: v, Tree: treeID(), Toolchain: "go1.26.8", Minimised: minimised, Plan: p}
	if final.res != nil {
		rf.Fingerprint = final.res.Fingerprint
		rf.History = final.res.History
		for _, fv := range final.res.Violations {
			if fv.Class == v.Class && fv.Subject == v.Subject {
				rf.Violation = fv
			}
		}
	}
	path := filepath.Join(verifDir, "out", id, fmt.Sprintf("%d.replay.json", o.seed))
	bs, _ := json.MarshalIndent(rf, "", " ")
	os.WriteFile(path, bs, 0o644)
	return path
}

func doReplay(b *built, id, file string, findings []finding, wallMax time.Duration) int {
	bs, err := os.ReadFile(file)
	if err != nil {
		infra("replay: %v", err)
	}
	var rf replayFile
	if err := json.Unmarshal(bs, &rf); err != nil || rf.Plan == nil {
		infra("replay: bad file: %v", err)
	}
	o := runPlan(b, rf.Plan, "replay", true, false, wallMax)
	if o.err != "" {
		infra("replay: %s", o.err)
	}
	if sameFailure(o.res, rf.Violation) {
		fmt.Printf("VIOLATION property=%s replay=%s\n", id, file)
		for _, v := range o.res.Violations {
			fmt.Printf("  class=%s subject=%s\n  %s\n", v.Class, v.Subject, head(v.Detail, 1500))
		}
		if o.res.Status == "crashed" {
			fmt.Printf("  member crashed: %s\n", head(o.res.Reason, 3000))
		}
		if rf.Fingerprint != 0 && o.res.Fingerprint != rf.Fingerprint && rf.Tree == treeID() {
			fmt.Printf("  note: schedule fingerprint differs from the recorded one (%x vs %x)\n", o.res.Fingerprint, rf.Fingerprint)
		}
		return 1
	}
	fmt.Printf("replay of %s: violation %s/%s did not recur (status=%s, %d other violations)\n", file, rf.Violation.Class, rf.Violation.Subject, o.res.Status, len(o.res.Violations))
	shown := map[string]bool{}
	for _, v := range o.res.Violations {
		k := v.Class + "/" + v.Subject
		if shown[k] {
			continue
		}
		shown[k] = true
		what := "NOT listed in known_findings.txt"
		if matchFinding(findings, id, v) != nil {
			what = "listed as a known finding"
		}
		fmt.Printf("  other: class=%s subject=%s (%s)\n", v.Class, v.Subject, what)
	}
	if rf.Tree == treeID() && rf.Fingerprint != 0 && o.res.Fingerprint != rf.Fingerprint {
		fmt.Println("REPLAY-DIVERGED: same tree, different schedule fingerprint")
		return 2
	}
	return 0
}

// ---- evidence ------------------------------------------------------------------------------

type evidence struct {
	PropertyID  string         `json:"property_id"`
	Tier        string         `json:"tier"`
	Seed        int64          `json:"seed"`
	Level       string         `json:"level"`
	Coverage    map[string]any `json:"coverage"`
	Assumptions []string       `json:"assumptions"`
	WallS       float64        `json:"wall_s"`
	Violations  int            `json:"violations"`

	counters map[string]int64
	status   map[string]int
	reasons  map[string]int
	simNs    int64
	steps    uint64
	samples  []any
	evals    int
}

func newEvidence(id, tier string, seed uint64, m *props.Meta) *evidence {
	return &evidence{PropertyID: id, Tier: tier, Seed: int64(seed & 0x7fffffffffffffff), Level: m.Level, Coverage: map[string]any{"rule": m.Rule},
		Assumptions: append([]string{
			"single bubble clock: no per-member clock skew; global clock jumps only",
			"one P per worker: interleavings are at message, lock hand-over and yield granularity, not instruction granularity",
			"sampling: a clean batch is evidence, not proof",
		}, m.Assume...),
		counters: map[string]int64{}, status: map[string]int{}, reasons: map[string]int{}}
}

func (e *evidence) add(o *outcome) {
	e.evals++
	r := o.res
	e.status[r.Status]++
	if r.Status == "inconclusive" {
		e.reasons[r.Reason]++
	}
	e.simNs += r.SimNs
	e.steps += r.Steps
	for k, v := range r.Counters {
		e.counters[k] += v
	}
	if len(e.samples) < 2 && r.Nontrivial {
		var sample any = o.plan
		if pb, err := json.Marshal(o.plan); err == nil && len(pb) > 20000 {
			// plans with large values (C17, C20) would make the evidence file megabytes long
			sample = map[string]any{"plan_json_bytes": len(pb), "plan_json_head": string(pb[:4000]), "regenerate": fmt.Sprintf("bin/check genplan:%s:%d", o.plan.Prop, o.seed)}
		}
		e.samples = append(e.samples, map[string]any{"seed": o.seed, "plan": sample, "status": r.Status, "steps": r.Steps, "sim_ms": r.SimNs / 1e6, "fingerprint": fmt.Sprintf("%x", r.Fingerprint)})
	}
}

func (e *evidence) write() {
	faults := map[string]int64{}
	probes := map[string]int64{}
	other := map[string]int64{}
	for k, v := range e.counters {
		switch {
		case strings.HasPrefix(k, "fault."):
			faults[k[6:]] = v
		case strings.HasPrefix(k, "probe."):
			probes[k[6:]] = v
		default:
			other[k] = v
		}
	}
	if len(e.samples) == 0 {
		e.samples = []any{"no non-trivial run in this batch"}
	}
	c := e.Coverage
	c["evaluations"] = e.evals
	c["samples"] = e.samples
	c["simulated_seconds"] = round1(float64(e.simNs) / 1e9)
	c["driver_steps"] = e.steps
	c["faults_fired"] = faults
	c["probes"] = probes
	c["counters"] = other
	c["run_status"] = e.status
	c["inconclusive_reasons"] = e.reasons
	c["components"] = map[string]string{
		"olric (root, internal/*, config, pkg/*)": "real, from /repo working tree, mechanically rewritten (mutex -> simsync, net.Listen/Dialer -> simnet, yields)",
		"hashicorp/memberlist":                   "real, over simnet transport",
		"tidwall/redcon, redis/go-redis":         "real, over simnet streams",
		"network, listener, dialer":              "stub: simnet",
		"clock, timers":                          "stub: testing/synctest fake clock",
		"goroutine scheduling":                   "1 P, no async preemption; driver releases one event per quiescent point",
		"disk":                                   "none exists in olric",
	}
	evDir := filepath.Join(verifDir, "evidence")
	if repoDir != "/repo" {
		// a run against a scratch tree (sensitivity experiments) is not evidence about /repo
		evDir = filepath.Join(verifDir, "out", "evidence-scratch")
	}
	os.MkdirAll(evDir, 0o755)
	bs, _ := json.MarshalIndent(e, "", " ")
	if err := os.WriteFile(filepath.Join(evDir, e.PropertyID+".json"), bs, 0o644); err != nil {
		infra("write evidence: %v", err)
	}
}

// ---- determinism self-test -------------------------------------------------------------------

func selftestDeterminism(b *built, base uint64, jobs int) int {
	ids := []string{}
	for id := range props.Generators {
		ids = append(ids, id)
	}
	sort.Strings(ids)
	type job struct {
		id   string
		seed uint64
		rep  int
		par  int
	}
	total, diverged := 0, 0
	for _, par := range []int{1, 4, jobs} {
		var js []job
		for _, id := range ids {
			for s := uint64(0); s < 6; s++ {
				for rep := 0; rep < 2; rep++ {
					js = append(js, job{id, mixSeed(base, s), rep, par})
				}
			}
		}
		res := make([]string, len(js))
		var wg sync.WaitGroup
		sem := make(chan struct{}, par)
		for i, j := range js {
			wg.Add(1)
			sem <- struct{}{}
			go func() {
				defer wg.Done()
				defer func() { <-sem }()
				p := props.Generators[j.id](j.seed, "quick")
				o := runPlan(b, p, fmt.Sprintf("dt-%d-%d", par, i), false, true, 120*time.Second)
				if o.res != nil {
					res[i] = fmt.Sprintf("%x/%d/%s/%d", o.res.Fingerprint, o.res.Steps, o.res.Status, len(o.res.Trace))
				}
			}()
		}
		wg.Wait()
		for i := 0; i < len(js); i += 2 {
			total++
			if res[i] != res[i+1] {
				diverged++
				fmt.Printf("DIVERGED %s seed=%d par=%d: %s vs %s\n", js[i].id, js[i].seed, par, res[i], res[i+1])
			}
		}
	}
	fmt.Printf("determinism self-test: %d pairs, %d diverged\n", total, diverged)
	if diverged > 0 {
		return 2
	}
	return 0
}
