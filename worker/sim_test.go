//go:debug randautoseed=0
//go:debug randseednop=0

// Package worker is the simulation worker: one OS process runs one plan inside
// one testing/synctest bubble and writes a Result JSON.
package worker

import (
	"encoding/json"
	"flag"
	"fmt"
	"math/rand"
	"os"
	"runtime"
	"runtime/debug"
	"syscall"
	"testing"
	"testing/synctest"
	"time"

	"verif/plan"
	"verif/props"
	"verif/sim/exec"
	"verif/sim/simrt"
)

var (
	planFile = flag.String("plan", "", "plan JSON file")
	outFile  = flag.String("out", "", "result JSON file (default stdout)")
	trace    = flag.Bool("trace", false, "record the full event trace")
	history  = flag.Bool("history", false, "always include the history in the result")
	wallMax  = flag.Duration("wallmax", 120*time.Second, "real-time watchdog")
)

func writeResult(res *plan.Result) {
	b, _ := json.Marshal(res)
	if *outFile == "" {
		fmt.Println(string(b))
	} else if err := os.WriteFile(*outFile, b, 0o644); err != nil {
		fmt.Fprintln(os.Stderr, "SIM-INFRA: write result:", err)
		os.Exit(2)
	}
}

// realNow reads the real clock even inside the bubble.
func realNow() int64 {
	var tv syscall.Timeval
	syscall.Gettimeofday(&tv)
	return tv.Sec*1e9 + tv.Usec*1e3
}

func TestSim(t *testing.T) {
	if *planFile == "" {
		t.Skip("no plan")
	}
	// address-space limit: a runaway allocation loop must kill this worker, not the machine
	lim := syscall.Rlimit{Cur: 12 << 30, Max: 12 << 30}
	syscall.Setrlimit(syscall.RLIMIT_AS, &lim)
	runtime.GOMAXPROCS(1)
	debug.SetGCPercent(-1)
	debug.SetMemoryLimit(6 << 30)
	b, err := os.ReadFile(*planFile)
	if err != nil {
		simrt.Fatalf("read plan: %v", err)
	}
	var p plan.Plan
	if err := json.Unmarshal(b, &p); err != nil {
		simrt.Fatalf("parse plan: %v", err)
	}
	rand.Seed(int64(p.Seed))
	t0 := realNow()
	// real-time watchdog, outside the bubble
	go func() {
		time.Sleep(*wallMax)
		buf := make([]byte, 1<<20)
		n := runtime.Stack(buf, true)
		fmt.Fprintf(os.Stderr, "SIM-INFRA: watchdog expired after %v\n%s\n", *wallMax, buf[:n])
		res := &plan.Result{Prop: p.Prop, Seed: p.Seed, Status: "infra", Reason: "watchdog"}
		writeResult(res)
		os.Exit(2)
	}()
	var run *exec.Run
	var k *simrt.Kernel
	done := make(chan struct{})
	finish := func() {
		res := &plan.Result{Prop: p.Prop, Seed: p.Seed, Fingerprint: k.Fingerprint(), Steps: k.Steps,
			SimNs: int64(k.Now()), WallMs: (realNow() - t0) / 1e6, Counters: k.Counters}
		props.Judge(&p, run.Err, run.His, res)
		if *history || res.Status == "violation" {
			res.History = run.His
		}
		if *trace {
			res.Trace = k.Trace()
		}
		res.WallMs = (realNow() - t0) / 1e6
		writeResult(res)
		if res.Status == "infra" {
			os.Exit(2)
		}
		os.Exit(0)
	}
	_ = done
	synctest.Test(t, func(t *testing.T) {
		k = simrt.New(p.Seed, *trace, synctest.Wait)
		max := p.MaxSteps
		if max == 0 {
			max = 5_000_000
		}
		go func() {
			run = exec.Execute(&p, k)
			k.Stop()
			// The bubble cannot be torn down (olric and client goroutines leak by
			// design, see DESIGN F7): judge and exit from here.
			finish()
		}()
		k.Drive(max)
		// step budget exhausted before the plan finished
		res := &plan.Result{Prop: p.Prop, Seed: p.Seed, Status: "inconclusive", Reason: "step budget exhausted",
			Fingerprint: k.Fingerprint(), Steps: k.Steps, SimNs: int64(k.Now()), Counters: k.Counters}
		writeResult(res)
		os.Exit(0)
	})
}
