// Package simrt is the simulation kernel: one driver goroutine, one event queue
// ordered by (due time, class, canonical id), hash-derived choices, the
// schedule fingerprint, cooperative yield points and buggify knobs.
//
// Everything here runs inside one testing/synctest bubble with GOMAXPROCS=1.
// The kernel never reads a real clock and never draws from a sequential PRNG:
// every choice is H(seed, purpose, canonical ids), so removing an item from a
// plan does not shift the choices of unrelated flows.
package simrt

import (
	"container/heap"
	"fmt"
	"hash/fnv"
	"os"
	"strings"
	"sync"
	"sync/atomic"
	"time"
)

// Event classes; lower runs first among events due at the same instant.
const (
	ClassFault   = 1
	ClassAccept  = 2
	ClassStream  = 3
	ClassPacket  = 4
	ClassResume  = 5
	ClassClient  = 6
	ClassHarness = 7
)

type Event struct {
	Due   time.Duration
	Class int
	ID    [3]uint64
	ord   uint64
	Name  string // for the trace only
	Run   func()
}

type evHeap []*Event

func (h evHeap) Len() int { return len(h) }
func (h evHeap) Less(i, j int) bool {
	a, b := h[i], h[j]
	if a.Due != b.Due {
		return a.Due < b.Due
	}
	if a.Class != b.Class {
		return a.Class < b.Class
	}
	if a.ID != b.ID {
		for k := 0; k < 3; k++ {
			if a.ID[k] != b.ID[k] {
				return a.ID[k] < b.ID[k]
			}
		}
	}
	return a.ord < b.ord
}
func (h evHeap) Swap(i, j int) { h[i], h[j] = h[j], h[i] }
func (h *evHeap) Push(x any)   { *h = append(*h, x.(*Event)) }
func (h *evHeap) Pop() any {
	old := *h
	n := len(old)
	x := old[n-1]
	old[n-1] = nil
	*h = old[:n-1]
	return x
}

type Kernel struct {
	mu    sync.Mutex
	Seed  uint64
	start time.Time
	q     evHeap
	ord   uint64
	seq   uint64 // global stamp: driver events + client invoke/return
	wake  chan struct{}
	stop  bool

	Steps    uint64
	fp       uint64 // running schedule fingerprint
	trace    *strings.Builder
	Counters map[string]int64

	// yields
	yieldOn    atomic.Bool
	yieldArmP  uint64 // site armed if H(site) % 1000 < yieldArmP
	yieldParkP uint64 // visit parks if H(site,visit) % 1000 < yieldParkP
	yieldMaxNs uint64
	siteVisits map[uint32]uint64

	lockOrd uint64
	ncpu    int
	waitFn  func()
}

// K is the kernel of the (single) run of this process. nil outside a run.
var K *Kernel

var yieldDebug = os.Getenv("VERIF_YTRACE") != ""

func mix(x uint64) uint64 {
	x += 0x9E3779B97F4A7C15
	x = (x ^ (x >> 30)) * 0xBF58476D1CE4E5B9
	x = (x ^ (x >> 27)) * 0x94D049BB133111EB
	return x ^ (x >> 31)
}

// Hash derives a value from the seed, a purpose string and ids.
func Hash(seed uint64, purpose string, ids ...uint64) uint64 {
	h := mix(seed)
	for i := 0; i < len(purpose); i++ {
		h = mix(h ^ uint64(purpose[i]))
	}
	for _, id := range ids {
		h = mix(h ^ mix(id))
	}
	return h
}

func New(seed uint64, trace bool, wait func()) *Kernel {
	k := &Kernel{Seed: seed, start: time.Now(), wake: make(chan struct{}, 1),
		Counters: map[string]int64{}, siteVisits: map[uint32]uint64{}, ncpu: 2, waitFn: wait}
	if trace {
		k.trace = &strings.Builder{}
	}
	k.fp = 14695981039346656037
	K = k
	return k
}

func (k *Kernel) Choice(purpose string, ids ...uint64) uint64 { return Hash(k.Seed, purpose, ids...) }

// Now is simulated time since the start of the run.
func (k *Kernel) Now() time.Duration { return time.Since(k.start) }

// Stamp returns the next global sequence number (used for history invoke/return).
func (k *Kernel) Stamp() uint64 {
	k.mu.Lock()
	k.seq++
	s := k.seq
	k.mu.Unlock()
	return s
}

func (k *Kernel) Count(name string, d int64) {
	k.mu.Lock()
	k.Counters[name] += d
	k.mu.Unlock()
}

func (k *Kernel) note(kind string, e *Event) {
	// fingerprint: FNV-1a over (due, class, id)
	f := k.fp
	for _, v := range [...]uint64{uint64(e.Due), uint64(e.Class), e.ID[0], e.ID[1], e.ID[2]} {
		for i := 0; i < 8; i++ {
			f ^= (v >> (8 * i)) & 0xff
			f *= 1099511628211
		}
	}
	k.fp = f
	if k.trace != nil {
		fmt.Fprintf(k.trace, "%d %s t=%d c=%d id=%x.%x.%x %s\n", k.Steps, kind, int64(e.Due), e.Class, e.ID[0], e.ID[1], e.ID[2], e.Name)
	}
}

// Tracef adds a line to the trace (if enabled) and folds it into the fingerprint.
func (k *Kernel) Tracef(format string, a ...any) {
	s := fmt.Sprintf(format, a...)
	h := fnv.New64a()
	h.Write([]byte(s))
	k.mu.Lock()
	k.fp = mix(k.fp ^ h.Sum64())
	if k.trace != nil {
		fmt.Fprintf(k.trace, "%d # t=%d %s\n", k.Steps, int64(k.Now()), s)
	}
	k.mu.Unlock()
}

func (k *Kernel) Fingerprint() uint64 { k.mu.Lock(); defer k.mu.Unlock(); return k.fp }
func (k *Kernel) Trace() string {
	if k.trace == nil {
		return ""
	}
	k.mu.Lock()
	defer k.mu.Unlock()
	return k.trace.String()
}

// At schedules run at simulated offset due (clamped to now).
func (k *Kernel) At(due time.Duration, class int, id [3]uint64, name string, run func()) {
	now := k.Now()
	if due < now {
		due = now
	}
	k.mu.Lock()
	k.ord++
	heap.Push(&k.q, &Event{Due: due, Class: class, ID: id, ord: k.ord, Name: name, Run: run})
	k.mu.Unlock()
	select {
	case k.wake <- struct{}{}:
	default:
	}
}

func (k *Kernel) After(d time.Duration, class int, id [3]uint64, name string, run func()) {
	k.At(k.Now()+d, class, id, name, run)
}

func (k *Kernel) Stop() {
	k.mu.Lock()
	k.stop = true
	k.mu.Unlock()
	select {
	case k.wake <- struct{}{}:
	default:
	}
}

// Drive is the driver loop. It must run in its own bubble goroutine and is the
// only caller of synctest.Wait (passed in as waitFn).
func (k *Kernel) Drive(maxSteps uint64) {
	idle := time.NewTimer(time.Hour)
	defer idle.Stop()
	for {
		k.waitFn()
		k.mu.Lock()
		if k.stop || k.Steps >= maxSteps {
			k.mu.Unlock()
			return
		}
		var ev *Event
		var sleep time.Duration = -1
		if len(k.q) > 0 {
			now := k.Now()
			if k.q[0].Due <= now {
				ev = heap.Pop(&k.q).(*Event)
				k.Steps++
				k.seq++
				k.note("ev", ev)
			} else {
				sleep = k.q[0].Due - now
			}
		}
		k.mu.Unlock()
		if ev != nil {
			ev.Run()
			continue
		}
		// drain a stale wake token so we do not spin
		select {
		case <-k.wake:
			continue
		default:
		}
		if sleep < 0 {
			<-k.wake
			continue
		}
		idle.Reset(sleep)
		select {
		case <-k.wake:
			if !idle.Stop() {
				select {
				case <-idle.C:
				default:
				}
			}
		case <-idle.C:
		}
	}
}

// ---- yields ---------------------------------------------------------------

// ConfigureYields arms a fraction of yield sites for this run.
func (k *Kernel) ConfigureYields(armPermille, parkPermille uint64, maxDelay time.Duration) {
	k.yieldArmP, k.yieldParkP, k.yieldMaxNs = armPermille, parkPermille, uint64(maxDelay)
	k.yieldOn.Store(armPermille > 0 && parkPermille > 0)
}

func (k *Kernel) SetYieldsEnabled(on bool) {
	k.yieldOn.Store(on && k.yieldArmP > 0 && k.yieldParkP > 0)
}

// Yield is inserted by the instrumenter at function entries of olric packages.
func Yield(site uint32) {
	k := K
	if k == nil || !k.yieldOn.Load() {
		return
	}
	if Hash(k.Seed, "arm", uint64(site))%1000 >= k.yieldArmP {
		return
	}
	k.mu.Lock()
	v := k.siteVisits[site]
	k.siteVisits[site] = v + 1
	k.mu.Unlock()
	h := Hash(k.Seed, "park", uint64(site), v)
	if yieldDebug {
		k.Tracef("yield site=%x v=%d park=%v", site, v, h%1000 < k.yieldParkP)
	}
	if h%1000 >= k.yieldParkP {
		return
	}
	d := time.Duration((h >> 20) % (k.yieldMaxNs + 1))
	ch := make(chan struct{})
	k.Count("yield.parked", 1)
	k.After(d, ClassResume, [3]uint64{uint64(site), v, 0}, "resume", func() { close(ch) })
	<-ch
}

// NumCPU replaces runtime.NumCPU in olric (a per-run knob).
func NumCPU() int {
	if K == nil {
		return 2
	}
	return K.ncpu
}

func (k *Kernel) SetNumCPU(n int) { k.ncpu = n }

// NextLockOrdinal gives simsync a stable-per-execution id for a contended lock.
func (k *Kernel) NextLockOrdinal() uint64 {
	k.mu.Lock()
	k.lockOrd++
	o := k.lockOrd
	k.mu.Unlock()
	return o
}

// Fatalf is for harness bugs: exit 2, never a violation.
func Fatalf(format string, a ...any) {
	fmt.Fprintf(os.Stderr, "SIM-INFRA: "+format+"\n", a...)
	os.Exit(2)
}
