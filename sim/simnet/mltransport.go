package simnet

import (
	"fmt"
	"net"
	"time"

	"github.com/hashicorp/memberlist"

	"verif/sim/simrt"
)

// MLTransport implements memberlist.Transport over the simulated network.
type MLTransport struct {
	n        *Net
	node     int
	inc      int
	addr     string
	packetCh chan *memberlist.Packet
	l        *Listener
	zombie   bool
}

func (n *Net) NewMLTransport(node, inc int) (*MLTransport, error) {
	addr := net.JoinHostPort(IPOf(node), fmt.Sprint(MLPort))
	l, err := n.listen(addr)
	if err != nil {
		return nil, err
	}
	t := &MLTransport{n: n, node: node, inc: inc, addr: addr, packetCh: make(chan *memberlist.Packet, 4096), l: l}
	n.mu.Lock()
	n.packetEPs[addr] = t
	n.mu.Unlock()
	return t, nil
}

func (t *MLTransport) FinalAdvertiseAddr(ip string, port int) (net.IP, int, error) {
	return net.ParseIP(IPOf(t.node)), MLPort, nil
}

func (t *MLTransport) WriteTo(b []byte, addr string) (time.Time, error) {
	n := t.n
	now := time.Now()
	dst := NodeOf(addr)
	n.mu.Lock()
	if !n.alive(t.node, t.inc) || dst < 0 {
		n.mu.Unlock()
		return now, nil
	}
	key := [2]int{t.node, dst}
	ord := n.pktOrd[key]
	n.pktOrd[key] = ord + 1
	n.mu.Unlock()
	id := uint64(t.node)<<32 | uint64(dst)
	h := n.K.Choice("pkt", id, ord)
	if h%1000 < n.Cfg.PktDropPermille {
		n.K.Count("fault.pkt_drop", 1)
		return now, nil
	}
	data := append([]byte(nil), b...)
	from := &net.UDPAddr{IP: net.ParseIP(IPOf(t.node)), Port: MLPort}
	deliver := func() {
		n.mu.Lock()
		ep := n.packetEPs[addr]
		// a datagram that left its sender before the sender stopped is still delivered
		ok := ep != nil && !ep.zombie && n.linkLocked(t.node, dst, ClassML) == LinkUp
		n.mu.Unlock()
		if !ok {
			n.K.Count("net.pkt_undeliverable", 1)
			return
		}
		select {
		case ep.packetCh <- &memberlist.Packet{Buf: data, From: from, Timestamp: time.Now()}:
		default:
			n.K.Count("net.pkt_overflow", 1)
		}
	}
	lat := n.latency("plat", id, ord)
	n.K.After(lat, simrt.ClassPacket, [3]uint64{id, ord, 0}, "pkt", deliver)
	if (h>>12)%1000 < n.Cfg.PktDupPermille {
		n.K.Count("fault.pkt_dup", 1)
		n.K.After(lat+n.latency("plat2", id, ord), simrt.ClassPacket, [3]uint64{id, ord, 1}, "pkt-dup", deliver)
	}
	return now, nil
}

func (t *MLTransport) PacketCh() <-chan *memberlist.Packet { return t.packetCh }

func (t *MLTransport) DialTimeout(addr string, timeout time.Duration) (net.Conn, error) {
	return t.n.Dial(t.node, t.inc, addr)
}

func (t *MLTransport) StreamCh() <-chan net.Conn { return t.l.ch }

func (t *MLTransport) Shutdown() error {
	t.n.mu.Lock()
	if t.n.packetEPs[t.addr] == t {
		delete(t.n.packetEPs, t.addr)
	}
	t.n.mu.Unlock()
	return t.l.Close()
}
