// Package simnet is the simulated network: in-memory streams (net.Conn /
// net.Listener), datagrams for memberlist gossip, a link matrix with fault
// states, and node crash / restart. Bytes move only through kernel events, so
// delivery order is a seeded decision.
package simnet

import (
	"context"
	"crypto/tls"
	"errors"
	"fmt"
	"io"
	"net"
	"os"
	"strconv"
	"sync"
	"syscall"
	"time"

	"verif/sim/simrt"
)

const (
	ClassRESP = 0 // olric RESP port
	ClassML   = 1 // memberlist port (streams and datagrams)
)

const (
	RESPPort = 3320
	MLPort   = 3322
)

type LinkState int

const (
	LinkUp LinkState = iota
	LinkBlackhole
	LinkRefuse
)

type Config struct {
	MinLat, MaxLat  time.Duration
	SegmentPermille uint64 // probability that a write is cut into two segments
	PktDropPermille uint64
	PktDupPermille  uint64
}

type linkKey struct{ a, b, class int }

type Net struct {
	K   *simrt.Kernel
	Cfg Config

	mu        sync.Mutex
	listeners map[string]*Listener
	packetEPs map[string]*MLTransport
	links     map[linkKey]LinkState
	nodeInc   map[int]int  // current incarnation of a node id
	nodeDown  map[int]bool // crashed (no live incarnation)
	flows     []*flow
	flowOrd   map[[3]int]uint64
	pktOrd    map[[2]int]uint64
	dialLog   [4096]dialRec
	dialN     int
}

// N is the network of this process' run (used by the rewritten olric code).
var N *Net

func New(k *simrt.Kernel, cfg Config) *Net {
	if cfg.MaxLat < cfg.MinLat {
		cfg.MaxLat = cfg.MinLat
	}
	n := &Net{K: k, Cfg: cfg, listeners: map[string]*Listener{}, packetEPs: map[string]*MLTransport{},
		links: map[linkKey]LinkState{}, nodeInc: map[int]int{}, nodeDown: map[int]bool{},
		flowOrd: map[[3]int]uint64{}, pktOrd: map[[2]int]uint64{}}
	N = n
	return n
}

// NodeOf maps "10.0.c.d[:port]" to node id c*256+d.
func NodeOf(addr string) int {
	host := addr
	if h, _, err := net.SplitHostPort(addr); err == nil {
		host = h
	}
	ip := net.ParseIP(host).To4()
	if ip == nil {
		return -1
	}
	return int(ip[2])*256 + int(ip[3])
}

func IPOf(node int) string { return fmt.Sprintf("10.0.%d.%d", node/256, node%256) }

func classOf(addr string) int {
	_, p, _ := net.SplitHostPort(addr)
	if p == strconv.Itoa(MLPort) {
		return ClassML
	}
	return ClassRESP
}

func lk(a, b, class int) linkKey {
	if a > b {
		a, b = b, a
	}
	return linkKey{a, b, class}
}

func (n *Net) linkLocked(a, b, class int) LinkState { return n.links[lk(a, b, class)] }

// SetLink sets the state of the (symmetric) link a<->b for a traffic class; class<0 = both.
func (n *Net) SetLink(a, b, class int, st LinkState) {
	n.mu.Lock()
	classes := []int{class}
	if class < 0 {
		classes = []int{ClassRESP, ClassML}
	}
	var flush []*flow
	for _, c := range classes {
		n.links[lk(a, b, c)] = st
		for _, f := range n.flows {
			if f.class != c || !((f.src == a && f.dst == b) || (f.src == b && f.dst == a)) {
				continue
			}
			if st == LinkUp && (len(f.held[0]) > 0 || len(f.held[1]) > 0) {
				flush = append(flush, f)
			}
			if st == LinkRefuse && !f.dead {
				f.dead = true
				f.ends[0].fail(syscall.ECONNRESET)
				f.ends[1].fail(syscall.ECONNRESET)
			}
		}
	}
	n.mu.Unlock()
	n.K.Tracef("link %d-%d class=%d state=%d", a, b, class, st)
	for _, f := range flush {
		f := f
		n.K.After(n.Cfg.MinLat, simrt.ClassStream, [3]uint64{f.id, 9, 0}, "flush-held", func() { f.flushHeld() })
	}
}

// ResetFlows tears down every established stream between a and b (class<0: all) with ECONNRESET.
func (n *Net) ResetFlows(a, b, class int) int {
	n.mu.Lock()
	cnt := 0
	for _, f := range n.flows {
		if f.dead || (class >= 0 && f.class != class) || !((f.src == a && f.dst == b) || (f.src == b && f.dst == a)) {
			continue
		}
		f.dead = true
		f.ends[0].fail(syscall.ECONNRESET)
		f.ends[1].fail(syscall.ECONNRESET)
		cnt++
	}
	n.mu.Unlock()
	n.K.Tracef("reset flows %d-%d class=%d n=%d", a, b, class, cnt)
	n.K.Count("fault.conn_reset", int64(cnt))
	return cnt
}

// InFlight reports how many undelivered stream segments exist on flows touching node (class RESP).
func (n *Net) InFlight(node int) int {
	n.mu.Lock()
	defer n.mu.Unlock()
	c := 0
	for _, f := range n.flows {
		if f.dead || f.class != ClassRESP {
			continue
		}
		if f.src == node || f.dst == node {
			c += f.inflight
		}
	}
	return c
}

// CrashNode cuts a node out of the network atomically. With reset=true peers see
// ECONNRESET on established streams and refused dials (process killed); with
// reset=false they see silence (machine gone) until their own time-outs.
func (n *Net) CrashNode(node int, reset bool) {
	n.mu.Lock()
	n.nodeDown[node] = true
	n.nodeInc[node]++
	for _, f := range n.flows {
		if f.dead || (f.src != node && f.dst != node) {
			continue
		}
		f.dead = true
		for i := 0; i < 2; i++ {
			e := f.ends[i]
			if e.node == node {
				e.fail(syscall.ECONNRESET) // zombie side: let its goroutines finish
			} else if reset {
				e.fail(syscall.ECONNRESET)
			} else {
				e.silent = true
			}
		}
	}
	for addr, l := range n.listeners {
		if NodeOf(addr) == node {
			l.zombie = true
			l.silent = !reset
		}
	}
	for addr, ep := range n.packetEPs {
		if NodeOf(addr) == node {
			ep.zombie = true
		}
	}
	n.mu.Unlock()
	n.K.Tracef("crash node %d reset=%v", node, reset)
}

// Incarnation returns the incarnation number a starting member must use.
func (n *Net) Incarnation(node int) int {
	n.mu.Lock()
	defer n.mu.Unlock()
	n.nodeDown[node] = false
	return n.nodeInc[node]
}

func (n *Net) alive(node, inc int) bool { return !n.nodeDown[node] && n.nodeInc[node] == inc }

func (n *Net) latency(purpose string, ids ...uint64) time.Duration {
	span := uint64(n.Cfg.MaxLat - n.Cfg.MinLat)
	return n.Cfg.MinLat + time.Duration(n.K.Choice(purpose, ids...)%(span+1))
}

// ---- streams --------------------------------------------------------------

type segment struct {
	data []byte
	fin  bool
}

type flow struct {
	n        *Net
	id       uint64
	src, dst int
	class    int
	ends     [2]*Conn
	lastDue  [2]time.Duration
	segOrd   [2]uint64
	held     [2][]segment // segments waiting for a black-holed link to heal (direction = receiver index)
	dead     bool
	inflight int
}

type Conn struct {
	f      *flow
	side   int // 0 = dialer, 1 = acceptor
	node   int
	local  *net.TCPAddr
	remote *net.TCPAddr

	mu     sync.Mutex
	rbuf   []byte
	rerr   error
	werr   error
	closed bool
	silent bool // peer vanished silently: writes vanish, reads block until deadline
	rdl    time.Time
	rsig   chan struct{}
}

func (c *Conn) signal() {
	select {
	case c.rsig <- struct{}{}:
	default:
	}
}

func (c *Conn) fail(err error) {
	c.mu.Lock()
	if c.rerr == nil {
		c.rerr = err
	}
	if c.werr == nil {
		c.werr = err
	}
	c.mu.Unlock()
	c.signal()
}

type timeoutError struct{}

func (timeoutError) Error() string   { return "i/o timeout" }
func (timeoutError) Timeout() bool   { return true }
func (timeoutError) Temporary() bool { return true }
func (timeoutError) Is(err error) bool {
	return err == os.ErrDeadlineExceeded || err == context.DeadlineExceeded
}

func opErr(op string, c *Conn, err error) error {
	return &net.OpError{Op: op, Net: "tcp", Source: c.local, Addr: c.remote, Err: err}
}

func (c *Conn) Read(b []byte) (int, error) {
	if len(b) == 0 {
		return 0, nil
	}
	for {
		c.mu.Lock()
		if c.closed {
			c.mu.Unlock()
			return 0, opErr("read", c, net.ErrClosed)
		}
		if len(c.rbuf) > 0 {
			n := copy(b, c.rbuf)
			c.rbuf = c.rbuf[n:]
			if len(c.rbuf) == 0 {
				c.rbuf = nil
			}
			c.mu.Unlock()
			return n, nil
		}
		if c.rerr != nil {
			e := c.rerr
			c.mu.Unlock()
			if e == io.EOF {
				return 0, io.EOF
			}
			return 0, opErr("read", c, e)
		}
		dl := c.rdl
		c.mu.Unlock()
		if dl.IsZero() {
			<-c.rsig
			continue
		}
		d := time.Until(dl)
		if d <= 0 {
			return 0, opErr("read", c, timeoutError{})
		}
		t := time.NewTimer(d)
		select {
		case <-c.rsig:
			t.Stop()
		case <-t.C:
		}
	}
}

func (c *Conn) Write(b []byte) (int, error) {
	c.mu.Lock()
	if c.closed {
		c.mu.Unlock()
		return 0, opErr("write", c, net.ErrClosed)
	}
	if c.werr != nil {
		e := c.werr
		c.mu.Unlock()
		return 0, opErr("write", c, e)
	}
	silent := c.silent
	c.mu.Unlock()
	if len(b) == 0 {
		return 0, nil
	}
	if silent {
		return len(b), nil
	}
	data := append([]byte(nil), b...)
	f := c.f
	n := f.n
	// segmentation
	if len(data) > 1 && n.Cfg.SegmentPermille > 0 {
		h := n.K.Choice("seg", f.id, uint64(c.side), f.segOrd[c.side])
		if h%1000 < n.Cfg.SegmentPermille {
			cut := 1 + int((h>>16)%uint64(len(data)-1))
			f.send(c.side, segment{data: data[:cut]})
			f.send(c.side, segment{data: data[cut:]})
			n.K.Count("net.segmented_writes", 1)
			return len(b), nil
		}
	}
	f.send(c.side, segment{data: data})
	return len(b), nil
}

// send schedules delivery of seg from side `from` to the other side.
func (f *flow) send(from int, seg segment) {
	n := f.n
	to := 1 - from
	n.mu.Lock()
	if f.dead {
		n.mu.Unlock()
		return
	}
	ord := f.segOrd[from]
	f.segOrd[from]++
	lat := n.latency("lat", f.id, uint64(from), ord)
	due := n.K.Now() + lat
	if due < f.lastDue[from] {
		due = f.lastDue[from]
	}
	f.lastDue[from] = due
	f.inflight++
	n.mu.Unlock()
	n.K.At(due, simrt.ClassStream, [3]uint64{f.id, uint64(from), ord}, "seg", func() { f.deliver(to, seg) })
}

func (f *flow) deliver(to int, seg segment) {
	n := f.n
	n.mu.Lock()
	f.inflight--
	if f.dead {
		n.mu.Unlock()
		return
	}
	if n.linkLocked(f.src, f.dst, f.class) == LinkBlackhole || len(f.held[to]) > 0 {
		f.held[to] = append(f.held[to], seg)
		n.mu.Unlock()
		n.K.Count("net.held_segments", 1)
		return
	}
	n.mu.Unlock()
	f.ends[to].receive(seg)
}

func (f *flow) flushHeld() {
	n := f.n
	n.mu.Lock()
	if f.dead || n.linkLocked(f.src, f.dst, f.class) == LinkBlackhole {
		n.mu.Unlock()
		return
	}
	h := f.held
	f.held = [2][]segment{}
	n.mu.Unlock()
	for to := 0; to < 2; to++ {
		for _, s := range h[to] {
			f.ends[to].receive(s)
		}
	}
}

func (c *Conn) receive(seg segment) {
	c.mu.Lock()
	if seg.fin {
		if c.rerr == nil {
			c.rerr = io.EOF
		}
	} else {
		c.rbuf = append(c.rbuf, seg.data...)
	}
	c.mu.Unlock()
	c.signal()
}

func (c *Conn) Close() error {
	c.mu.Lock()
	if c.closed {
		c.mu.Unlock()
		return nil
	}
	c.closed = true
	dead := c.werr != nil || c.silent
	c.mu.Unlock()
	c.signal()
	if !dead {
		c.f.send(c.side, segment{fin: true})
	}
	return nil
}

func (c *Conn) LocalAddr() net.Addr  { return c.local }
func (c *Conn) RemoteAddr() net.Addr { return c.remote }
func (c *Conn) SetDeadline(t time.Time) error {
	return c.SetReadDeadline(t)
}
func (c *Conn) SetReadDeadline(t time.Time) error {
	c.mu.Lock()
	c.rdl = t
	c.mu.Unlock()
	c.signal()
	return nil
}
func (c *Conn) SetWriteDeadline(time.Time) error { return nil }

// ---- listeners and dialing ---------------------------------------------------

type Listener struct {
	n      *Net
	addr   *net.TCPAddr
	key    string
	node   int
	inc    int
	ch     chan net.Conn
	done   chan struct{}
	once   sync.Once
	zombie bool
	silent bool
}

func tcpAddr(addr string) *net.TCPAddr {
	h, p, _ := net.SplitHostPort(addr)
	port, _ := strconv.Atoi(p)
	return &net.TCPAddr{IP: net.ParseIP(h), Port: port}
}

// Listen replaces net.Listen in olric's server.
func Listen(network, addr string) (net.Listener, error) {
	n := N
	if n == nil {
		return nil, errors.New("simnet: no network")
	}
	return n.listen(addr)
}

func (n *Net) listen(addr string) (*Listener, error) {
	node := NodeOf(addr)
	if node < 0 {
		return nil, fmt.Errorf("simnet: bad listen address %q", addr)
	}
	n.mu.Lock()
	defer n.mu.Unlock()
	if old, ok := n.listeners[addr]; ok && !old.zombie {
		return nil, &net.OpError{Op: "listen", Net: "tcp", Err: syscall.EADDRINUSE}
	}
	l := &Listener{n: n, addr: tcpAddr(addr), key: addr, node: node, inc: n.nodeInc[node],
		ch: make(chan net.Conn, 4096), done: make(chan struct{})}
	n.listeners[addr] = l
	return l, nil
}

func (l *Listener) Accept() (net.Conn, error) {
	select {
	case c := <-l.ch:
		return c, nil
	case <-l.done:
		return nil, &net.OpError{Op: "accept", Net: "tcp", Addr: l.addr, Err: net.ErrClosed}
	}
}

func (l *Listener) Close() error {
	l.once.Do(func() {
		close(l.done)
		l.n.mu.Lock()
		if l.n.listeners[l.key] == l {
			delete(l.n.listeners, l.key)
		}
		l.n.mu.Unlock()
	})
	return nil
}
func (l *Listener) Addr() net.Addr { return l.addr }

type dialRec struct {
	at              time.Duration
	src, dst, class int
}

// RecentDials counts the RESP streams opened between nodes below maxNode (the members) since the
// given simulated instant (at most the last 4096 dials are remembered). A quiet cluster reuses its
// pooled connections; hundreds of new member-to-member connections per second are the signature of
// requests bouncing between members whose routing tables disagree.
func (n *Net) RecentDials(since time.Duration, maxNode int) int {
	n.mu.Lock()
	defer n.mu.Unlock()
	c := 0
	for i := 0; i < len(n.dialLog) && i < n.dialN; i++ {
		r := n.dialLog[i]
		if r.at >= since && r.class == ClassRESP && r.src < maxNode && r.dst < maxNode {
			c++
		}
	}
	return c
}

// Dial opens a stream from (srcNode, inc) to addr.
func (n *Net) Dial(srcNode, inc int, addr string) (net.Conn, error) {
	dst := NodeOf(addr)
	class := classOf(addr)
	n.mu.Lock()
	refuse := func() (net.Conn, error) {
		n.mu.Unlock()
		n.K.Count("net.dial_refused", 1)
		return nil, &net.OpError{Op: "dial", Net: "tcp", Addr: tcpAddr(addr), Err: syscall.ECONNREFUSED}
	}
	if dst < 0 || !n.alive(srcNode, inc) {
		return refuse()
	}
	l := n.listeners[addr]
	st := n.linkLocked(srcNode, dst, class)
	if st == LinkRefuse {
		return refuse()
	}
	silent := false
	if l == nil {
		return refuse()
	}
	if l.zombie {
		if !l.silent {
			return refuse()
		}
		silent = true
	}
	key := [3]int{srcNode, dst, class}
	ord := n.flowOrd[key]
	n.flowOrd[key] = ord + 1
	f := &flow{n: n, src: srcNode, dst: dst, class: class,
		id: uint64(srcNode)<<44 | uint64(dst)<<24 | uint64(class)<<20 | (ord & 0xfffff)}
	la := &net.TCPAddr{IP: net.ParseIP(IPOf(srcNode)), Port: 40000 + int(ord%20000)}
	ra := tcpAddr(addr)
	c0 := &Conn{f: f, side: 0, node: srcNode, local: la, remote: ra, rsig: make(chan struct{}, 1)}
	c1 := &Conn{f: f, side: 1, node: dst, local: ra, remote: la, rsig: make(chan struct{}, 1)}
	f.ends = [2]*Conn{c0, c1}
	if silent {
		f.dead = true
		c0.silent = true
		n.mu.Unlock()
		n.K.Count("net.dial_blackholed", 1)
		return c0, nil
	}
	n.flows = append(n.flows, f)
	lat := n.latency("acc", f.id)
	due := n.K.Now() + lat
	f.lastDue[0] = due
	n.dialLog[n.dialN%len(n.dialLog)] = dialRec{n.K.Now(), srcNode, dst, class}
	n.dialN++
	n.mu.Unlock()
	n.K.Count("net.dials", 1)
	n.K.At(due, simrt.ClassAccept, [3]uint64{f.id, 0, 0}, "accept", func() {
		n.mu.Lock()
		dead := f.dead
		n.mu.Unlock()
		if dead {
			return
		}
		select {
		case l.ch <- c1:
		default:
			c0.fail(syscall.ECONNRESET)
		}
	})
	return c0, nil
}

// Dialer replaces net.Dialer in olric's default client configuration. Source is
// an anonymous helper client co-located with the destination member.
type Dialer struct {
	Timeout   time.Duration
	KeepAlive time.Duration
}

func (d *Dialer) DialContext(ctx context.Context, network, addr string) (net.Conn, error) {
	n := N
	if n == nil {
		return nil, errors.New("simnet: no network")
	}
	dst := NodeOf(addr)
	src := 50*256 + dst%256 // helper node 10.0.50.x next to the member it talks to
	n.mu.Lock()
	inc := n.nodeInc[src]
	n.mu.Unlock()
	return n.Dial(src, inc, addr)
}

func TLSDialWithDialer(d *Dialer, network, addr string, cfg *tls.Config) (net.Conn, error) {
	return nil, errors.New("simnet: TLS is not simulated")
}

// DialerFor returns a dial function bound to a source node incarnation.
func (n *Net) DialerFor(node, inc int) func(ctx context.Context, network, addr string) (net.Conn, error) {
	return func(ctx context.Context, network, addr string) (net.Conn, error) {
		return n.Dial(node, inc, addr)
	}
}
