package exec

import (
	"bufio"
	"context"
	"fmt"
	"io"
	"net"
	"sort"
	"strconv"
	"strings"
	"sync"
	"time"

	"verif/plan"
	"verif/sim/cluster"
)

// subscription is one subscriber connection speaking raw RESP (C14).
type subscription struct {
	c      net.Conn
	mu     sync.Mutex
	msgs   []string // kind|pattern|channel|payload|stamp
	acks   chan []string
	closed bool
	rerr   string
}

func readRESP(br *bufio.Reader) (interface{}, error) {
	line, err := br.ReadString('\n')
	if err != nil {
		return nil, err
	}
	if len(line) < 3 {
		return nil, fmt.Errorf("short line %q", line)
	}
	body := line[1 : len(line)-2]
	switch line[0] {
	case '+':
		return body, nil
	case '-':
		return fmt.Errorf("%s", body), nil
	case ':':
		n, _ := strconv.ParseInt(body, 10, 64)
		return n, nil
	case '$':
		n, _ := strconv.Atoi(body)
		if n < 0 {
			return nil, nil
		}
		buf := make([]byte, n+2)
		if _, err := io.ReadFull(br, buf); err != nil {
			return nil, err
		}
		return string(buf[:n]), nil
	case '*':
		n, _ := strconv.Atoi(body)
		if n < 0 {
			return nil, nil
		}
		arr := make([]interface{}, 0, n)
		for i := 0; i < n; i++ {
			v, err := readRESP(br)
			if err != nil {
				return nil, err
			}
			arr = append(arr, v)
		}
		return arr, nil
	}
	return nil, fmt.Errorf("bad type byte %q", line[0])
}

func (r *Run) subReader(s *subscription) {
	br := bufio.NewReader(s.c)
	for {
		v, err := readRESP(br)
		if err != nil {
			s.mu.Lock()
			s.closed, s.rerr = true, err.Error()
			s.mu.Unlock()
			close(s.acks)
			return
		}
		if e, isErr := v.(error); isErr {
			select {
			case s.acks <- []string{"error", e.Error()}:
			default:
			}
			continue
		}
		arr, ok := v.([]interface{})
		if !ok || len(arr) == 0 {
			s.mu.Lock()
			s.msgs = append(s.msgs, fmt.Sprintf("other||%v||%d", v, r.K.Stamp()))
			s.mu.Unlock()
			continue
		}
		strs := make([]string, len(arr))
		for i, a := range arr {
			strs[i] = fmt.Sprint(a)
		}
		switch strs[0] {
		case "message":
			if len(strs) == 3 {
				s.mu.Lock()
				s.msgs = append(s.msgs, fmt.Sprintf("message||%s|%s|%d", strs[1], strs[2], r.K.Stamp()))
				s.mu.Unlock()
			}
		case "pmessage":
			if len(strs) == 4 {
				s.mu.Lock()
				s.msgs = append(s.msgs, fmt.Sprintf("pmessage|%s|%s|%s|%d", strs[1], strs[2], strs[3], r.K.Stamp()))
				s.mu.Unlock()
			}
		case "subscribe", "psubscribe", "unsubscribe", "punsubscribe", "pong":
			// the stamp at which this frame was read, in stream order with the message frames
			strs = append(strs, fmt.Sprintf("@%d", r.K.Stamp()))
			select {
			case s.acks <- strs:
			default:
			}
		}
	}
}

func (r *Run) doPubSub(c *client, sc *plan.Script, idx int, op *plan.Op, rec *plan.Rec) {
	ctx := context.Background()
	switch op.K {
	case "ps.pub":
		rdb := r.ctlRaw(op.M)
		n, err := rdb.Do(ctx, "PUBLISH", op.Key, op.Val).Int64()
		rec.Err, rec.Int = Classify(err), n
		return
	case "ps.channels", "ps.numsub", "ps.numpat":
		rdb := r.ctlRaw(op.M)
		var args []any
		switch op.K {
		case "ps.channels":
			args = []any{"PUBSUB", "channels"}
			if op.Pattern != "" {
				args = append(args, op.Pattern)
			}
		case "ps.numsub":
			args = []any{"PUBSUB", "numsub"}
			for _, k := range op.Keys {
				args = append(args, k)
			}
		case "ps.numpat":
			args = []any{"PUBSUB", "numpat"}
		}
		res, err := rdb.Do(ctx, args...).Result()
		rec.Err = Classify(err)
		switch v := res.(type) {
		case int64:
			rec.Int = v
		case []interface{}:
			for _, x := range v {
				rec.Keys = append(rec.Keys, fmt.Sprint(x))
			}
			if op.K == "ps.channels" {
				sort.Strings(rec.Keys)
			}
		}
		return
	}
	// subscriber-side ops use the connection of this script
	s := c.subs["conn"]
	if s == nil {
		if op.K == "ps.collect" || op.K == "ps.close" {
			return
		}
		node := clientNodeBase + 300 + sc.ID
		conn, err := r.N.Dial(node, r.N.Incarnation(node), cluster.AddrOfIdx(sc.M))
		if err != nil {
			rec.Err = "dial:" + err.Error()
			return
		}
		s = &subscription{c: conn, acks: make(chan []string, 1024)}
		c.subs["conn"] = s
		go r.subReader(s)
	}
	switch op.K {
	case "ps.sub", "ps.psub", "ps.unsub", "ps.punsub":
		name := map[string]string{"ps.sub": "SUBSCRIBE", "ps.psub": "PSUBSCRIBE", "ps.unsub": "UNSUBSCRIBE", "ps.punsub": "PUNSUBSCRIBE"}[op.K]
		args := append([]string{name}, op.Keys...)
		if _, err := s.c.Write(respArray(args)); err != nil {
			rec.Err = "write:" + err.Error()
			return
		}
		want := len(op.Keys)
		if want == 0 {
			// (P)UNSUBSCRIBE without arguments is acknowledged once per subscription (once with a nil
			// channel if there is none): a PING behind it marks the end of the acknowledgements
			want = 1 << 30
			s.c.Write(respArray([]string{"PING", "sync"}))
		}
		t := time.NewTimer(5 * time.Second)
		defer t.Stop()
		for got := 0; got < want; {
			select {
			case a, ok := <-s.acks:
				if !ok {
					rec.Err = "closed"
					return
				}
				if a[0] == "error" {
					rec.Err = "other:" + a[1]
					return
				}
				if a[0] == "pong" && want == 1<<30 {
					if got == 0 {
						rec.Err = "other:no acknowledgement before the marker"
					}
					return
				}
				if strings.ToLower(name) == a[0] {
					got++
					rec.Keys = append(rec.Keys, strings.Join(a, "|"))
					if last := a[len(a)-1]; strings.HasPrefix(last, "@") {
						if st, err := strconv.ParseInt(last[1:], 10, 64); err == nil {
							rec.TS = st // position of the acknowledgement in the connection's frame stream
						}
					}
				}
			case <-t.C:
				rec.Err = "timeout"
				return
			}
		}
	case "ps.ping":
		s.c.Write(respArray([]string{"PING", "sync"}))
		t := time.NewTimer(5 * time.Second)
		defer t.Stop()
		for {
			select {
			case a, ok := <-s.acks:
				if !ok {
					rec.Err = "closed"
					return
				}
				if a[0] == "pong" {
					return
				}
			case <-t.C:
				rec.Err = "timeout"
				return
			}
		}
	case "ps.close":
		// read everything the member had already sent (same stream, so a pong is behind it)
		s.c.Write(respArray([]string{"PING", "drain"}))
		t := time.NewTimer(2 * time.Second)
	drain:
		for {
			select {
			case a, ok := <-s.acks:
				if !ok || a[0] == "pong" {
					break drain
				}
			case <-t.C:
				break drain
			}
		}
		t.Stop()
		s.c.Close()
	case "ps.collect":
		s.mu.Lock()
		rec.Keys = append([]string(nil), s.msgs...)
		rec.Info = s.rerr
		s.mu.Unlock()
		rec.N = len(rec.Keys)
	default:
		rec.Err = "other:unknown pubsub op " + op.K
	}
}
