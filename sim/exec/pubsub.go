package exec

import "verif/plan"

type subscription struct{}

func (r *Run) doPubSub(c *client, sc *plan.Script, idx int, op *plan.Op, rec *plan.Rec) {
	rec.Err = "other:pubsub not implemented"
}
