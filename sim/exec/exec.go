// Package exec runs one plan inside the simulation and records the history.
package exec

import (
	"context"
	"encoding/binary"
	"errors"
	"fmt"
	"io"
	"log"
	"net"
	"sort"
	"strconv"
	"strings"
	"sync"
	"time"

	"github.com/olric-data/olric"
	"github.com/olric-data/olric/config"
	"github.com/redis/go-redis/v9"

	"verif/plan"
	"verif/sim/cluster"
	"verif/sim/simnet"
	"verif/sim/simrt"
)

type Run struct {
	P   *plan.Plan
	K   *simrt.Kernel
	N   *simnet.Net
	C   *cluster.Cluster
	mu  sync.Mutex
	His []plan.Rec
	Err error // infrastructure-level failure of the run (not a violation by itself)

	clients map[int]*client
	invAt   map[[2]int]int64 // (script id, op index) -> invocation time
	eng     *engines
	kept    []*keptValue
	keptStr [][2]string
	fz      map[int]*fuzzConn
}

type client struct {
	id    int
	kind  string
	m     int
	node  int
	cc    *olric.ClusterClient
	rdb   *redis.Client
	dmaps map[string]olric.DMap
	locks map[int]olric.LockContext // op index -> lock context
	tokens map[int]string           // raw client lock tokens
	subs  map[string]*subscription
}

const forgedToken = "00112233445566778899aabbccddeeff"

// forgeVariant turns a token (hex) into one that is never valid: "empty" presents no bytes at all,
// "prefix" the first half of the token, "longer" the token followed by one more byte.
func forgeVariant(tok, tag string) string {
	switch tag {
	case "empty":
		return ""
	case "prefix":
		return tok[:len(tok)/4*2]
	case "longer":
		return tok + "00"
	}
	return tok
}

const clientNodeBase = 100 * 256 // 10.0.100.x are external clients

func usd(v int64) time.Duration { return time.Duration(v) * time.Microsecond }
func msd(v int64) time.Duration { return time.Duration(v) * time.Millisecond }

// Execute runs the whole plan. It must be called inside the bubble, from a
// goroutine other than the driver.
func Execute(p *plan.Plan, k *simrt.Kernel) *Run {
	n := simnet.New(k, simnet.Config{MinLat: usd(p.Net.MinLatUs), MaxLat: usd(p.Net.MaxLatUs),
		SegmentPermille: p.Net.SegmentPermille, PktDropPermille: p.Net.PktDropPermille, PktDupPermille: p.Net.PktDupPermille})
	if p.NumCPU > 0 {
		k.SetNumCPU(p.NumCPU)
	}
	k.ConfigureYields(p.Yield.ArmPermille, p.Yield.ParkPermille, usd(p.Yield.MaxUs))
	k.SetYieldsEnabled(false)
	r := &Run{P: p, K: k, N: n, C: cluster.New(k, n, p.Cluster), clients: map[int]*client{}, invAt: map[[2]int]int64{}}
	// form the initial cluster: members are created at distinct instants
	if p.Cluster.MemberCountQuorum > 1 {
		// no member becomes operable alone: start them side by side (still at distinct instants)
		errs := make(chan error, p.Cluster.Members)
		for i := 0; i < p.Cluster.Members; i++ {
			go func() { errs <- r.C.Start(i, 120*time.Second) }()
			time.Sleep(7 * time.Millisecond)
		}
		for i := 0; i < p.Cluster.Members; i++ {
			if err := <-errs; err != nil {
				r.Err = fmt.Errorf("cluster formation: %w", err)
				return r
			}
		}
	} else {
		for i := 0; i < p.Cluster.Members; i++ {
			if err := r.C.Start(i, 60*time.Second); err != nil {
				r.Err = fmt.Errorf("cluster formation: %w", err)
				return r
			}
			time.Sleep(7 * time.Millisecond)
		}
	}
	if p.Cluster.Members > 0 {
		if _, err := r.C.WaitStable(120*time.Second, 50*time.Millisecond); err != nil {
			r.Err = fmt.Errorf("cluster formation: %w", err)
			return r
		}
	}
	k.Tracef("cluster formed")
	for pi := range p.Phases {
		ph := &p.Phases[pi]
		k.Tracef("phase %d %s", pi, ph.Name)
		k.SetYieldsEnabled(ph.Yields)
		var wg sync.WaitGroup
		for ci := range ph.Clients {
			sc := &ph.Clients[ci]
			wg.Add(1)
			go func() {
				defer wg.Done()
				r.runScript(pi, sc)
			}()
		}
		wg.Wait()
		k.SetYieldsEnabled(false)
		if r.Err != nil {
			break
		}
	}
	return r
}

func (r *Run) record(rec plan.Rec) {
	r.mu.Lock()
	r.His = append(r.His, rec)
	r.mu.Unlock()
}

func (r *Run) client(sc *plan.Script) (*client, error) {
	r.mu.Lock()
	c := r.clients[sc.ID]
	r.mu.Unlock()
	if c != nil {
		return c, nil
	}
	c = &client{id: sc.ID, kind: sc.Kind, m: sc.M, node: clientNodeBase + sc.ID, dmaps: map[string]olric.DMap{},
		locks: map[int]olric.LockContext{}, tokens: map[int]string{}, subs: map[string]*subscription{}}
	switch sc.Kind {
	case "cc":
		var addrs []string
		for _, m := range r.C.Running() {
			addrs = append(addrs, m.Addr)
		}
		if len(addrs) == 0 {
			return nil, errors.New("no running member for cluster client")
		}
		cl := config.NewClient()
		cl.Dialer = r.N.DialerFor(c.node, r.N.Incarnation(c.node))
		cl.PoolSize = 4
		if v := r.P.Params["cc_max_retries"]; v != 0 {
			cl.MaxRetries = int(v)
		}
		cc, err := olric.NewClusterClient(addrs, olric.WithConfig(cl), olric.WithLogger(log.New(io.Discard, "", 0)),
			olric.WithRoutingTableFetchInterval(msd(max64(r.P.Params["cc_fetch_ms"], 1000))))
		if err != nil {
			return nil, err
		}
		c.cc = cc
	case "raw":
		c.rdb = r.rawClient(c.node, sc.M)
	}
	r.mu.Lock()
	r.clients[sc.ID] = c
	r.mu.Unlock()
	return c, nil
}

func max64(a, b int64) int64 {
	if a > b {
		return a
	}
	return b
}

func (r *Run) rawClient(node, m int) *redis.Client {
	return redis.NewClient(&redis.Options{
		Addr:         cluster.AddrOfIdx(m),
		Dialer:       r.N.DialerFor(node, r.N.Incarnation(node)),
		MaxRetries:   -1,
		PoolSize:     2,
		ReadTimeout:  30 * time.Second,
		WriteTimeout: 30 * time.Second,
		Protocol:     2,
		DisableIndentity: true,
	})
}

func (r *Run) dmap(c *client, sc *plan.Script, name string) (olric.DMap, error) {
	if name == "" {
		name = r.P.DMap
	}
	if dm, ok := c.dmaps[name]; ok {
		return dm, nil
	}
	var dm olric.DMap
	var err error
	switch c.kind {
	case "emb":
		m := r.C.Members[sc.M]
		if m == nil || m.EC == nil {
			return nil, fmt.Errorf("member %d has no embedded client", sc.M)
		}
		dm, err = m.EC.NewDMap(name)
	case "cc":
		dm, err = c.cc.NewDMap(name)
	default:
		return nil, fmt.Errorf("client kind %s has no DMap", c.kind)
	}
	if err != nil {
		return nil, err
	}
	c.dmaps[name] = dm
	return dm, nil
}

func (r *Run) runScript(pi int, sc *plan.Script) {
	for i := range sc.Ops {
		if r.Err != nil {
			return
		}
		op := sc.Ops[i]
		if op.D > 0 {
			ch := make(chan struct{})
			r.K.After(usd(op.D), simrt.ClassClient, [3]uint64{uint64(sc.ID), uint64(pi), uint64(i)}, "op-start", func() { close(ch) })
			<-ch
		}
		eff := sc
		if len(op.Tag) == 4 && (op.Tag[:3] == "emb" || op.Tag[:3] == "raw") {
			// embo/embn/rawo/rawn: entry on the owner / on a non-owner of the key, resolved now
			k0 := op.Key
			if k0 == "" && len(op.Keys) > 0 {
				k0 = op.Keys[0]
			}
			dmn := op.DM
			if dmn == "" {
				dmn = r.P.DMap
			}
			owner := r.OwnerOf(dmn, k0)
			m := owner
			if op.Tag[3] == 'n' {
				run := r.C.Running()
				for j := range run {
					cand := run[(j+op.M)%len(run)].Idx
					if cand != owner {
						m = cand
						break
					}
				}
			}
			op.Tag, op.M = op.Tag[:3], m
		}
		if (op.Tag == "emb" || op.Tag == "raw") && op.M < 0 {
			// negative member: the (-M-1)-th running member at this instant
			if run := r.C.Running(); len(run) > 0 {
				op.M = run[(-op.M-1)%len(run)].Idx
			}
		}
		if op.Tag == "emb" || op.Tag == "cc" || op.Tag == "raw" {
			// per-op entry point: a client of that kind (and member) private to this script
			code := map[string]int{"emb": 1, "cc": 2, "raw": 3}[op.Tag]
			m := op.M
			if op.Tag == "cc" {
				m = 0
			}
			eff = &plan.Script{ID: 1000 + sc.ID*100 + code*10 + m, Kind: op.Tag, M: m}
		}
		rec := plan.Rec{Phase: pi, Client: sc.ID, Idx: i, Op: op}
		rec.Inv = r.K.Stamp()
		rec.TInv = int64(r.K.Now())
		r.mu.Lock()
		r.invAt[[2]int{sc.ID, i}] = rec.TInv
		r.mu.Unlock()
		if op.K == "del" {
			rec.RtInv = r.routingEpoch()
		}
		r.doOp(eff, i, &op, &rec)
		if op.K == "del" {
			rec.RtRet = r.routingEpoch()
		}
		rec.Ret = r.K.Stamp()
		rec.TRet = int64(r.K.Now())
		r.record(rec)
		if r.P.Params["probe_after_each"] != 0 && r.P.Phases[pi].Name == "chains" && op.Key != "" && !strings.HasPrefix(op.K, "ctl.") && op.K != "get" {
			dmn := op.DM
			if dmn == "" {
				dmn = r.P.DMap
			}
			pr := plan.Rec{Phase: pi, Client: sc.ID, Idx: i, Op: plan.Op{K: "ctl.copies", Key: op.Key, DM: op.DM}}
			pr.Info = fmt.Sprintf("%s via %s/m%d -> %q", op.K, eff.Kind, eff.M, rec.Err)
			pr.Inv = r.K.Stamp()
			pr.TInv = int64(r.K.Now())
			pr.Copies = r.Copies(dmn, op.Key)
			pr.Ret = r.K.Stamp()
			pr.TRet = int64(r.K.Now())
			r.record(pr)
		}
	}
}

// routingEpoch hashes the routing signatures of all running members (see plan.Rec.RtInv).
func (r *Run) routingEpoch() (h uint64) {
	defer func() { recover() }() // a member that has not received its first table
	h = 1469598103934665603
	for _, m := range r.C.Running() {
		h = (h ^ uint64(m.Idx+1)) * 1099511628211
		h = (h ^ m.DB.VerifRoutingSignature()) * 1099511628211
	}
	return h
}

// Classify maps an error from any client path to a class name.
func Classify(err error) string {
	if err == nil {
		return ""
	}
	switch {
	case errors.Is(err, olric.ErrKeyNotFound):
		return plan.ENotFound
	case errors.Is(err, olric.ErrKeyFound):
		return plan.EKeyFound
	case errors.Is(err, olric.ErrLockNotAcquired):
		return plan.ELockNotAcq
	case errors.Is(err, olric.ErrNoSuchLock):
		return plan.ENoSuchLock
	case errors.Is(err, olric.ErrWriteQuorum):
		return plan.EWriteQ
	case errors.Is(err, olric.ErrReadQuorum):
		return plan.EReadQ
	case errors.Is(err, olric.ErrClusterQuorum):
		return plan.EClusterQ
	case errors.Is(err, olric.ErrKeyTooLarge):
		return plan.EKeyTooLarge
	case errors.Is(err, olric.ErrEntryTooLarge):
		return plan.EEntryTooLarge
	case errors.Is(err, olric.ErrServerGone):
		return plan.EServerGone
	case errors.Is(err, olric.ErrOperationTimeout):
		return plan.ETimeout
	case errors.Is(err, redis.Nil):
		return plan.ENotFound
	}
	s := err.Error()
	for _, p := range [][2]string{
		{"KEYNOTFOUND", plan.ENotFound}, {"DMAPNOTFOUND", plan.ENotFound}, {"KEYFOUND", plan.EKeyFound},
		{"LOCKNOTACQUIRED", plan.ELockNotAcq}, {"NOSUCHLOCK", plan.ENoSuchLock}, {"WRITEQUORUM", plan.EWriteQ},
		{"READQUORUM", plan.EReadQ}, {"CLUSTERQUORUM", plan.EClusterQ}, {"KEYTOOLARGE", plan.EKeyTooLarge},
		{"ENTRYTOOLARGE", plan.EEntryTooLarge}, {"SERVERGONE", plan.EServerGone}, {"OPERATIONTIMEOUT", plan.ETimeout},
	} {
		if strings.HasPrefix(s, p[0]) {
			return p[1]
		}
	}
	return "other:" + s
}

// absExpiry turns the relative EXAT/PXAT offsets of a plan op into the absolute
// wall-clock millisecond that is sent: EXAT is rounded up to a whole second (the
// protocol carries it as float seconds), PXAT to a whole millisecond.
func absExpiry(op *plan.Op) int64 {
	now := time.Now().UnixNano() / 1e6
	switch {
	case op.EXAT > 0:
		return (now + op.EXAT + 999) / 1000 * 1000
	case op.PXAT > 0:
		return now + op.PXAT
	}
	return 0
}

func putOpts(op *plan.Op, abs int64) []olric.PutOption {
	var o []olric.PutOption
	if op.EX > 0 {
		o = append(o, olric.EX(msd(op.EX)))
	}
	if op.PX > 0 {
		o = append(o, olric.PX(msd(op.PX)))
	}
	if op.EXAT > 0 {
		o = append(o, olric.EXAT(time.Duration(abs*1e6)))
	}
	if op.PXAT > 0 {
		o = append(o, olric.PXAT(time.Duration(abs*1e6)))
	}
	if op.NX {
		o = append(o, olric.NX())
	}
	if op.XX {
		o = append(o, olric.XX())
	}
	return o
}

func (r *Run) doOp(sc *plan.Script, idx int, op *plan.Op, rec *plan.Rec) {
	ctx := context.Background()
	if strings.HasPrefix(op.K, "ctl.") {
		r.doCtl(sc, op, rec)
		return
	}
	if strings.HasPrefix(op.K, "eng.") {
		r.doEngine(op, rec)
		return
	}
	if strings.HasPrefix(op.K, "fz.") {
		r.doFuzz(sc, op, rec)
		return
	}
	if op.K == "putv" || op.K == "getv" || op.K == "delv" || strings.HasPrefix(op.K, "snap.") {
		r.doValueOp(sc, op, rec)
		return
	}
	if op.K == "pipe" {
		r.doPipe(sc, op, rec)
		return
	}
	c, err := r.client(sc)
	if err != nil {
		rec.Err = "other:client:" + err.Error()
		return
	}
	if strings.HasPrefix(op.K, "ps.") {
		r.doPubSub(c, sc, idx, op, rec)
		return
	}
	if c.kind == "raw" {
		r.doRaw(c, idx, op, rec)
		return
	}
	dm, err := r.dmap(c, sc, op.DM)
	if err != nil {
		rec.Err = Classify(err)
		return
	}
	switch op.K {
	case "put":
		rec.Int = absExpiry(op)
		rec.Err = Classify(dm.Put(ctx, op.Key, op.Val, putOpts(op, rec.Int)...))
	case "get":
		g, err := dm.Get(ctx, op.Key)
		rec.Err = Classify(err)
		if err == nil {
			fillGet(rec, g)
		}
	case "del":
		keys := op.Keys
		if len(keys) == 0 {
			keys = []string{op.Key}
		}
		n, err := dm.Delete(ctx, keys...)
		rec.N = n
		rec.Err = Classify(err)
	case "expire":
		rec.Err = Classify(dm.Expire(ctx, op.Key, msd(op.Dur)))
	case "getput":
		g, err := dm.GetPut(ctx, op.Key, op.Val)
		rec.Err = Classify(err)
		if err == nil && g != nil {
			fillGet(rec, g)
		}
	case "incr":
		v, err := dm.Incr(ctx, op.Key, int(op.Delta))
		rec.Int, rec.Err = int64(v), Classify(err)
	case "decr":
		v, err := dm.Decr(ctx, op.Key, int(op.Delta))
		rec.Int, rec.Err = int64(v), Classify(err)
	case "incrf":
		v, err := dm.IncrByFloat(ctx, op.Key, op.FDelta)
		rec.Float, rec.Err = v, Classify(err)
	case "lock":
		var lc olric.LockContext
		if op.Dur > 0 {
			lc, err = dm.LockWithTimeout(ctx, op.Key, msd(op.Dur), msd(op.Dur2))
		} else {
			lc, err = dm.Lock(ctx, op.Key, msd(op.Dur2))
		}
		rec.Err = Classify(err)
		if err == nil {
			c.locks[idx] = lc
		}
	case "unlock":
		lc := c.locks[op.Ref]
		if lc == nil {
			rec.Err = "skipped"
			return
		}
		rec.Err = Classify(lc.Unlock(ctx))
	case "lease":
		lc := c.locks[op.Ref]
		if lc == nil {
			rec.Err = "skipped"
			return
		}
		rec.Err = Classify(lc.Lease(ctx, msd(op.Dur)))
	case "scan":
		var so []olric.ScanOption
		if op.Count > 0 {
			so = append(so, olric.Count(op.Count))
		}
		if op.Pattern != "" {
			so = append(so, olric.Match(op.Pattern))
		}
		it, err := dm.Scan(ctx, so...)
		if err != nil {
			rec.Err = Classify(err)
			return
		}
		limit := int(max64(r.P.Params["scan_limit"], 100000))
		for it.Next() {
			rec.Keys = append(rec.Keys, it.Key())
			if len(rec.Keys) > limit {
				rec.Err = "other:scan did not terminate"
				break
			}
		}
		it.Close()
		rec.N = len(rec.Keys)
	case "destroy":
		rec.Err = Classify(dm.Destroy(ctx))
		delete(c.dmaps, dm.Name())
	default:
		rec.Err = "other:unknown op " + op.K
	}
}

func fillGet(rec *plan.Rec, g *olric.GetResponse) {
	defer func() {
		// EmbeddedDMap.GetPut returns a non-nil response wrapping a nil entry when there was no old value
		if r := recover(); r != nil {
			rec.Has, rec.Val, rec.Info = false, "", "nil-entry-response"
		}
	}()
	rec.TTL = g.TTL()
	rec.Has = true
	b, err := g.Byte()
	if err != nil {
		rec.Info = "byte:" + err.Error()
	}
	rec.Val = string(b)
	rec.TTL = g.TTL()
	rec.TS = g.Timestamp()
}

// ---- raw RESP path -----------------------------------------------------------

func fsec(msv int64) string { return strconv.FormatFloat(float64(msv)/1000, 'f', -1, 64) }

func (r *Run) doRaw(c *client, idx int, op *plan.Op, rec *plan.Rec) {
	ctx := context.Background()
	dmn := op.DM
	if dmn == "" {
		dmn = r.P.DMap
	}
	var args []any
	switch op.K {
	case "put":
		args = []any{"DM.PUT", dmn, op.Key, op.Val}
		if op.EX > 0 {
			args = append(args, "EX", fsec(op.EX))
		}
		if op.PX > 0 {
			args = append(args, "PX", op.PX)
		}
		rec.Int = absExpiry(op)
		if op.EXAT > 0 {
			args = append(args, "EXAT", rec.Int/1000)
		}
		if op.PXAT > 0 {
			args = append(args, "PXAT", rec.Int)
		}
		if op.NX {
			args = append(args, "NX")
		}
		if op.XX {
			args = append(args, "XX")
		}
	case "get":
		args = []any{"DM.GET", dmn, op.Key, "RW"}
	case "del":
		keys := op.Keys
		if len(keys) == 0 {
			keys = []string{op.Key}
		}
		args = []any{"DM.DEL", dmn}
		for _, k := range keys {
			args = append(args, k)
		}
	case "expire":
		args = []any{"DM.PEXPIRE", dmn, op.Key, op.Dur}
	case "getput":
		args = []any{"DM.GETPUT", dmn, op.Key, op.Val, "RW"}
	case "incr":
		args = []any{"DM.INCR", dmn, op.Key, op.Delta}
	case "decr":
		args = []any{"DM.DECR", dmn, op.Key, op.Delta}
	case "incrf":
		args = []any{"DM.INCRBYFLOAT", dmn, op.Key, strconv.FormatFloat(op.FDelta, 'f', -1, 64)}
	case "lock":
		args = []any{"DM.LOCK", dmn, op.Key, fsec(op.Dur2)}
		if op.Dur > 0 {
			args = append(args, "PX", op.Dur)
		}
	case "unlock":
		tok, ok := c.tokens[op.Ref]
		if op.Ref < 0 {
			tok, ok = forgedToken, true
		}
		if !ok {
			rec.Err = "skipped"
			return
		}
		tok = forgeVariant(tok, op.Tag)
		args = []any{"DM.UNLOCK", dmn, op.Key, tok}
	case "lease":
		tok, ok := c.tokens[op.Ref]
		if op.Ref < 0 {
			tok, ok = forgedToken, true
		}
		if !ok {
			rec.Err = "skipped"
			return
		}
		tok = forgeVariant(tok, op.Tag)
		args = []any{"DM.PLOCKLEASE", dmn, op.Key, tok, op.Dur}
	case "destroy":
		args = []any{"DM.DESTROY", dmn}
	case "cmd":
		for _, a := range op.Args {
			args = append(args, a)
		}
	default:
		rec.Err = "other:unknown raw op " + op.K
		return
	}
	res, err := c.rdb.Do(ctx, args...).Result()
	rec.Err = Classify(err)
	if op.K == "getput" && rec.Err == plan.ENotFound {
		// protocol: DM.GETPUT replies KEYNOTFOUND when there was no old value; the new value is stored
		rec.Err = ""
		return
	}
	if err != nil {
		return
	}
	switch op.K {
	case "get", "getput":
		if s, ok := res.(string); ok {
			e, derr := DecodeEntry([]byte(s))
			if derr != nil {
				rec.Info = "decode:" + derr.Error()
				return
			}
			rec.Has, rec.Val, rec.TTL, rec.TS = true, e.Val, e.TTL, e.TS
		}
	case "del", "incr", "decr":
		if v, ok := res.(int64); ok {
			rec.Int, rec.N = v, int(v)
		}
	case "incrf":
		switch v := res.(type) {
		case string:
			rec.Float, _ = strconv.ParseFloat(v, 64)
		case float64:
			rec.Float = v
		}
	case "lock":
		if s, ok := res.(string); ok {
			c.tokens[idx] = s
		}
	case "cmd":
		rec.Info = fmt.Sprint(res)
	}
}

type Entry struct {
	Key string
	Val string
	TTL int64
	TS  int64
}

// DecodeEntry decodes the replication wire format of one entry.
func DecodeEntry(b []byte) (Entry, error) {
	var e Entry
	if len(b) < 1 {
		return e, errors.New("short entry")
	}
	kl := int(b[0])
	if len(b) < 1+kl+28 {
		return e, errors.New("short entry")
	}
	off := 1
	e.Key = string(b[off : off+kl])
	off += kl
	e.TTL = int64(binary.BigEndian.Uint64(b[off:]))
	off += 8
	e.TS = int64(binary.BigEndian.Uint64(b[off:]))
	off += 16
	vl := int(binary.BigEndian.Uint32(b[off:]))
	off += 4
	if len(b) < off+vl {
		return e, errors.New("short value")
	}
	e.Val = string(b[off : off+vl])
	return e, nil
}

// ---- controller ops ----------------------------------------------------------------

func (r *Run) ctlRaw(m int) *redis.Client {
	sc := &plan.Script{ID: 90 + m, Kind: "raw", M: m}
	c, _ := r.client(sc)
	return c.rdb
}

// Copies reads every stored copy of key with DM.GETENTRY on each running member.
func (r *Run) Copies(dmn, key string) []plan.Copy {
	var out []plan.Copy
	hk := HKey(dmn, key)
	part := hk % r.partitions()
	for _, m := range r.C.Running() {
		rt := m.DB.VerifLocalRouting()
		route := rt[part]
		for _, kind := range []string{"primary", "backup"} {
			args := []any{"DM.GETENTRY", dmn, key}
			if kind == "backup" {
				args = append(args, "RC")
			}
			cp := plan.Copy{Member: m.Idx, Kind: kind}
			if kind == "primary" && len(route.PrimaryOwners) > 0 && route.PrimaryOwners[len(route.PrimaryOwners)-1] == m.Addr {
				cp.Routed = "owner"
			} else if kind == "primary" {
				for _, o := range route.PrimaryOwners {
					if o == m.Addr {
						cp.Routed = "prev-owner"
					}
				}
			}
			if kind == "backup" {
				for _, o := range route.ReplicaOwners {
					if o == m.Addr {
						cp.Routed = "backup"
					}
				}
			}
			res, err := r.ctlRaw(m.Idx).Do(context.Background(), args...).Result()
			if err != nil {
				if cl := Classify(err); cl != plan.ENotFound {
					cp.Err = cl
				}
			} else if s, ok := res.(string); ok {
				e, derr := DecodeEntry([]byte(s))
				if derr != nil {
					cp.Err = "decode:" + derr.Error()
				} else {
					cp.Found, cp.Val, cp.TTL, cp.TS = true, e.Val, e.TTL, e.TS
				}
			}
			if cp.Found || cp.Routed != "" || cp.Err != "" {
				out = append(out, cp)
			}
		}
	}
	return out
}

func (r *Run) partitions() uint64 {
	if r.P.Cluster.Partitions > 0 {
		return r.P.Cluster.Partitions
	}
	return 271
}

func (r *Run) doCtl(sc *plan.Script, op *plan.Op, rec *plan.Rec) {
	switch op.K {
	case "ctl.leave", "ctl.crash", "ctl.crash_inflight":
		if !r.resolveVictim(op, rec) {
			return
		}
	}
	switch op.K {
	case "ctl.sleep":
		time.Sleep(msd(op.Dur))
	case "ctl.sleep_rel":
		// sleep until <invocation time of op Ref of this script> + Dur ms
		r.mu.Lock()
		base := r.invAt[[2]int{sc.ID, op.Ref}]
		r.mu.Unlock()
		if d := time.Duration(base) + msd(op.Dur) - r.K.Now(); d > 0 {
			time.Sleep(d)
		}
	case "ctl.join":
		if err := r.C.Start(op.M, 60*time.Second); err != nil {
			rec.Err = "other:" + err.Error()
		}
		r.K.Count("fault.join", 1)
	case "ctl.leave":
		if err := r.C.Leave(op.M); err != nil {
			rec.Info = err.Error()
		}
		r.K.Count("fault.leave", 1)
	case "ctl.crash":
		r.C.Crash(op.M, op.Flag)
	case "ctl.crash_inflight":
		// wait (bounded) until at least one RESP segment touching the member is in flight, then crash
		deadline := r.K.Now() + msd(max64(op.Dur, 50))
		for r.K.Now() < deadline && r.N.InFlight(cluster.NodeOfIdx(op.M)) == 0 {
			time.Sleep(20 * time.Microsecond)
		}
		if r.N.InFlight(cluster.NodeOfIdx(op.M)) > 0 {
			r.K.Count("probe.crash_with_inflight", 1)
			rec.Info = "inflight"
		}
		r.C.Crash(op.M, op.Flag)
	case "ctl.partition":
		// Groups: members in different groups cannot talk (class by Count: 0 both, 1 RESP only, 2 ML only)
		st := simnet.LinkBlackhole
		if op.Flag {
			st = simnet.LinkRefuse
		}
		r.setGroups(op.Groups, int(op.Count), st)
		r.K.Count("fault.partition", 1)
	case "ctl.heal":
		r.setGroups(op.Groups, int(op.Count), simnet.LinkUp)
		r.K.Count("fault.heal", 1)
	case "ctl.reset":
		// reset established RESP streams between members Groups[0] and Groups[1]
		for _, a := range op.Groups[0] {
			for _, b := range op.Groups[1] {
				r.N.ResetFlows(cluster.NodeOfIdx(a), cluster.NodeOfIdx(b), simnet.ClassRESP)
			}
		}
	case "ctl.wait_stable":
		r.C.Strict = op.Flag
		r.C.Quiet = msd(op.Dur2)
		d, err := r.C.WaitStable(msd(max64(op.Dur, 60000)), 50*time.Millisecond)
		rec.Int = int64(d)
		if err != nil {
			rec.Err = "notstable:" + err.Error()
		}
		if r.C.SigInvariant != "" {
			rec.Info = "invariant:" + r.C.SigInvariant
		}
	case "ctl.copies":
		dmn := op.DM
		if dmn == "" {
			dmn = r.P.DMap
		}
		rec.Copies = r.Copies(dmn, op.Key)
	case "ctl.routing":
		rec.Info = r.routingReport()
	case "ctl.stats":
		r.doStats(op, rec)
	case "ctl.yields":
		r.K.SetYieldsEnabled(op.Flag)
	default:
		if !r.doCtlExtra(sc, op, rec) {
			rec.Err = "other:unknown ctl op " + op.K
		}
	}
}

func (r *Run) setGroups(groups [][]int, classSel int, st simnet.LinkState) {
	class := -1
	if classSel == 1 {
		class = simnet.ClassRESP
	} else if classSel == 2 {
		class = simnet.ClassML
	}
	for i := 0; i < len(groups); i++ {
		for j := i + 1; j < len(groups); j++ {
			for _, a := range groups[i] {
				for _, b := range groups[j] {
					r.N.SetLink(cluster.NodeOfIdx(a), cluster.NodeOfIdx(b), class, st)
				}
			}
		}
	}
}

func (r *Run) routingReport() string {
	var sb strings.Builder
	for _, m := range r.C.Running() {
		v, _ := r.C.LocalView(m)
		fmt.Fprintf(&sb, "m%d=%s\n", m.Idx, v)
	}
	return sb.String()
}

// OwnerOf returns the member index that member `view` believes to be the primary owner of key.
func (r *Run) OwnerOf(dmn, key string) int {
	run := r.C.Running()
	if len(run) == 0 {
		return -1
	}
	rt := run[0].DB.VerifLocalRouting()
	route := rt[HKey(dmn, key)%r.partitions()]
	if len(route.PrimaryOwners) == 0 {
		return -1
	}
	return cluster.IdxOfAddr(route.PrimaryOwners[len(route.PrimaryOwners)-1])
}

func sortedKeys[V any](m map[string]V) []string {
	ks := make([]string, 0, len(m))
	for k := range m {
		ks = append(ks, k)
	}
	sort.Strings(ks)
	return ks
}

var _ = net.JoinHostPort
