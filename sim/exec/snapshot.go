package exec

import (
	"context"
	"fmt"
	"sort"
	"strconv"
	"time"

	"github.com/olric-data/olric"
	"github.com/olric-data/olric/stats"

	"verif/plan"
)

func toRoutes(rt olric.RoutingTable) map[uint64]plan.Route {
	out := map[uint64]plan.Route{}
	for id, r := range rt {
		out[id] = plan.Route{Owners: append([]string(nil), r.PrimaryOwners...), Backups: append([]string(nil), r.ReplicaOwners...)}
	}
	return out
}

func names(ms []stats.Member) []string {
	var out []string
	for _, m := range ms {
		out = append(out, fmt.Sprintf("%s#%d", m.Name, m.ID))
	}
	return out
}

func partStats(in map[stats.PartitionID]stats.Partition) map[uint64]plan.PartStat {
	out := map[uint64]plan.PartStat{}
	for id, p := range in {
		ps := plan.PartStat{Length: p.Length, PrevOwners: names(p.PreviousOwners), Backups: names(p.Backups), DMaps: map[string]plan.DMapStat{}}
		for n, d := range p.DMaps {
			ps.DMaps[n] = plan.DMapStat{Length: d.Length, NumTables: d.NumTables, Allocated: d.SlabInfo.Allocated, Inuse: d.SlabInfo.Inuse, Garbage: d.SlabInfo.Garbage}
		}
		out[uint64(id)] = ps
	}
	return out
}

// Snapshot collects every member's view of membership and routing.
func (r *Run) Snapshot(withClient bool) *plan.Snapshot {
	// The collection is not atomic: repeat it until no member's routing view changed meanwhile.
	var s *plan.Snapshot
	for try := 0; try < 8; try++ {
		before := r.routingReport()
		s = r.snapshotOnce(withClient)
		if r.routingReport() == before {
			return s
		}
		r.K.Count("probe.snapshot_retry", 1)
		time.Sleep(300 * time.Millisecond)
	}
	s.Stable, s.Why = false, "routing views kept changing during snapshot collection"
	return s
}

func (r *Run) snapshotOnce(withClient bool) *plan.Snapshot {
	ctx := context.Background()
	s := &plan.Snapshot{AtNs: int64(r.K.Now())}
	s.Stable, s.Why = r.C.Stable()
	for _, m := range r.C.Running() {
		s.Running = append(s.Running, m.Idx)
		ms := plan.MemberSnap{Idx: m.Idx, Addr: m.Addr}
		func() {
			defer func() {
				if rec := recover(); rec != nil {
					ms.Err = fmt.Sprint("local view: ", rec)
				}
			}()
			ms.Local = toRoutes(m.DB.VerifLocalRouting())
		}()
		st, err := m.EC.Stats(ctx, m.Addr)
		if err != nil {
			ms.Err += " stats: " + err.Error()
		} else {
			ms.Self = plan.MemberInfo{Name: st.Member.Name, ID: st.Member.ID, Birthdate: st.Member.Birthdate}
			ms.Coord = plan.MemberInfo{Name: st.ClusterCoordinator.Name, ID: st.ClusterCoordinator.ID, Birthdate: st.ClusterCoordinator.Birthdate}
			for id, km := range st.ClusterMembers {
				ms.Known = append(ms.Known, plan.MemberInfo{Name: km.Name, ID: uint64(id), Birthdate: km.Birthdate})
			}
			sort.Slice(ms.Known, func(i, j int) bool { return ms.Known[i].ID < ms.Known[j].ID })
			ms.Primary = partStats(st.Partitions)
			ms.Backup = partStats(st.Backups)
		}
		rdb := r.ctlRaw(m.Idx)
		if res, err := rdb.Do(ctx, "CLUSTER.ROUTINGTABLE").Result(); err != nil {
			ms.RTErr = Classify(err)
		} else {
			ms.ClusterRT = parseRT(res)
		}
		if res, err := rdb.Do(ctx, "CLUSTER.MEMBERS").Result(); err != nil {
			ms.Err += " members: " + err.Error()
		} else if arr, ok := res.([]interface{}); ok {
			for _, it := range arr {
				f, ok := it.([]interface{})
				if !ok || len(f) < 3 {
					continue
				}
				mi := plan.MemberInfo{Name: fmt.Sprint(f[0])}
				switch b := f[1].(type) {
				case int64:
					mi.Birthdate = b
				case string:
					mi.Birthdate, _ = strconv.ParseInt(b, 10, 64)
				}
				mi.Coord = fmt.Sprint(f[2]) == "true"
				ms.MembersCmd = append(ms.MembersCmd, mi)
			}
			sort.Slice(ms.MembersCmd, func(i, j int) bool { return ms.MembersCmd[i].Name < ms.MembersCmd[j].Name })
		}
		s.Members = append(s.Members, ms)
	}
	if withClient && len(s.Running) > 0 {
		c, err := r.client(&plan.Script{ID: 80, Kind: "cc"})
		if err != nil {
			s.CErr = err.Error()
		} else {
			_ = c.cc.RefreshMetadata(ctx)
			rt, err := c.cc.RoutingTable(ctx)
			if err != nil {
				s.CErr = err.Error()
			} else {
				s.Client = toRoutes(rt)
			}
		}
	}
	return s
}

func parseRT(res interface{}) map[uint64]plan.Route {
	out := map[uint64]plan.Route{}
	arr, ok := res.([]interface{})
	if !ok {
		return out
	}
	strs := func(v interface{}) []string {
		var o []string
		if a, ok := v.([]interface{}); ok {
			for _, x := range a {
				o = append(o, fmt.Sprint(x))
			}
		}
		return o
	}
	for _, it := range arr {
		f, ok := it.([]interface{})
		if !ok || len(f) < 3 {
			continue
		}
		var id uint64
		switch v := f[0].(type) {
		case int64:
			id = uint64(v)
		case string:
			id, _ = strconv.ParseUint(v, 10, 64)
		}
		out[id] = plan.Route{Owners: strs(f[1]), Backups: strs(f[2])}
	}
	return out
}
