package exec

import (
	"bytes"
	"context"
	"encoding/base64"
	"fmt"
	"math"
	"strconv"
	"strings"
	"time"

	"github.com/olric-data/olric"

	"verif/plan"
)

// binMarsh is the BinaryMarshaler used by the typed-value ops.
type binMarsh struct{ B []byte }

func (b binMarsh) MarshalBinary() ([]byte, error) { return append([]byte("bm:"), b.B...), nil }
func (b *binMarsh) UnmarshalBinary(d []byte) error {
	if !bytes.HasPrefix(d, []byte("bm:")) {
		return fmt.Errorf("bad binMarsh prefix")
	}
	b.B = append([]byte(nil), d[3:]...)
	return nil
}

func b64(s string) []byte {
	b, _ := base64.StdEncoding.DecodeString(s)
	return b
}

// typedValue builds the Go value described by "type:literal".
func typedValue(desc string) (interface{}, error) {
	i := strings.IndexByte(desc, ':')
	if i < 0 {
		return nil, fmt.Errorf("bad value %q", desc)
	}
	typ, lit := desc[:i], desc[i+1:]
	pi := func(bits int) (int64, error) { return strconv.ParseInt(lit, 10, bits) }
	pu := func(bits int) (uint64, error) { return strconv.ParseUint(lit, 10, bits) }
	switch typ {
	case "int":
		v, err := pi(64)
		return int(v), err
	case "int8":
		v, err := pi(8)
		return int8(v), err
	case "int16":
		v, err := pi(16)
		return int16(v), err
	case "int32":
		v, err := pi(32)
		return int32(v), err
	case "int64":
		v, err := pi(64)
		return v, err
	case "uint":
		v, err := pu(64)
		return uint(v), err
	case "uint8":
		v, err := pu(8)
		return uint8(v), err
	case "uint16":
		v, err := pu(16)
		return uint16(v), err
	case "uint32":
		v, err := pu(32)
		return uint32(v), err
	case "uint64":
		v, err := pu(64)
		return v, err
	case "f32":
		v, err := strconv.ParseUint(lit, 0, 32)
		return math.Float32frombits(uint32(v)), err
	case "f64":
		v, err := strconv.ParseUint(lit, 0, 64)
		return math.Float64frombits(v), err
	case "bool":
		return lit == "true", nil
	case "str":
		return string(b64(lit)), nil
	case "bytes":
		return b64(lit), nil
	case "dur":
		v, err := pi(64)
		return time.Duration(v), err
	case "time":
		var ns int64
		var off int
		if _, err := fmt.Sscanf(lit, "%d|%d", &ns, &off); err != nil {
			return nil, err
		}
		return time.Unix(0, ns).In(time.FixedZone("", off)), nil
	case "bm":
		return binMarsh{B: b64(lit)}, nil
	}
	return nil, fmt.Errorf("unknown type %q", typ)
}

// readTyped scans the response into the named type and renders it in the canonical form.
func readTyped(g *olric.GetResponse, typ string) (string, error) {
	switch typ {
	case "int":
		v, err := g.Int()
		return fmt.Sprintf("int:%d", v), err
	case "int8":
		v, err := g.Int8()
		return fmt.Sprintf("int8:%d", v), err
	case "int16":
		v, err := g.Int16()
		return fmt.Sprintf("int16:%d", v), err
	case "int32":
		v, err := g.Int32()
		return fmt.Sprintf("int32:%d", v), err
	case "int64":
		v, err := g.Int64()
		return fmt.Sprintf("int64:%d", v), err
	case "uint":
		v, err := g.Uint()
		return fmt.Sprintf("uint:%d", v), err
	case "uint8":
		v, err := g.Uint8()
		return fmt.Sprintf("uint8:%d", v), err
	case "uint16":
		v, err := g.Uint16()
		return fmt.Sprintf("uint16:%d", v), err
	case "uint32":
		v, err := g.Uint32()
		return fmt.Sprintf("uint32:%d", v), err
	case "uint64":
		v, err := g.Uint64()
		return fmt.Sprintf("uint64:%d", v), err
	case "f32":
		v, err := g.Float32()
		return fmt.Sprintf("f32:%#x", math.Float32bits(v)), err
	case "f64":
		v, err := g.Float64()
		return fmt.Sprintf("f64:%#x", math.Float64bits(v)), err
	case "bool":
		v, err := g.Bool()
		return fmt.Sprintf("bool:%v", v), err
	case "str":
		v, err := g.String()
		return "str:" + base64.StdEncoding.EncodeToString([]byte(v)), err
	case "bytes":
		v, err := g.Byte()
		return "bytes:" + base64.StdEncoding.EncodeToString(v), err
	case "dur":
		v, err := g.Duration()
		return fmt.Sprintf("dur:%d", int64(v)), err
	case "time":
		v, err := g.Time()
		_, off := v.Zone()
		return fmt.Sprintf("time:%d|%d", v.UnixNano(), off), err
	case "bm":
		var v binMarsh
		err := g.Scan(&v)
		return "bm:" + base64.StdEncoding.EncodeToString(v.B), err
	}
	return "", fmt.Errorf("unknown type %q", typ)
}

type keptValue struct {
	key   string
	alias []byte // the slice handed out by the API
	copy  []byte // what it contained at that time
	from  string
}

// doValueOp handles putv / getv (C17) and the snapshot ops of C18. Keys are base64 when Op.Flag is set.
func (r *Run) doValueOp(sc *plan.Script, op *plan.Op, rec *plan.Rec) {
	ctx := context.Background()
	c, err := r.client(sc)
	if err != nil {
		rec.Err = "other:client:" + err.Error()
		return
	}
	dm, err := r.dmap(c, sc, op.DM)
	if err != nil {
		rec.Err = Classify(err)
		return
	}
	key := op.Key
	if op.Flag {
		key = string(b64(op.Key))
	}
	switch op.K {
	case "putv":
		v, err := typedValue(op.Val)
		if err != nil {
			rec.Err = "other:harness:" + err.Error()
			return
		}
		rec.Err = Classify(dm.Put(ctx, key, v))
	case "delv":
		_, err := dm.Delete(ctx, key)
		rec.Err = Classify(err)
	case "getv":
		g, err := dm.Get(ctx, key)
		rec.Err = Classify(err)
		if err != nil {
			return
		}
		s, err := readTyped(g, op.Pattern)
		if err != nil {
			rec.Info = "scan:" + err.Error()
		}
		rec.Val, rec.Has = s, true
	case "snap.get", "snap.getput":
		// keep the very slice the API returned, plus a private copy of its contents
		var g *olric.GetResponse
		if op.K == "snap.get" {
			g, err = dm.Get(ctx, key)
		} else {
			g, err = dm.GetPut(ctx, key, op.Val)
		}
		rec.Err = Classify(err)
		if err != nil || g == nil {
			return
		}
		var tmp plan.Rec
		fillGet(&tmp, g)
		if !tmp.Has {
			return
		}
		b, _ := g.Byte()
		rec.Has, rec.Val = true, string(b)
		r.mu.Lock()
		r.kept = append(r.kept, &keptValue{key: key, alias: b, copy: append([]byte(nil), b...), from: op.K + " via " + sc.Kind})
		if s, err := g.String(); err == nil && len(s) > 0 {
			// the string form may alias storage too: keep it as bytes sharing its memory
			r.keptStr = append(r.keptStr, [2]string{s, strings.Clone(s)})
		}
		r.mu.Unlock()
	case "snap.scan":
		// keep the very key strings an iterator hands out, plus private copies
		it, err := dm.Scan(ctx)
		rec.Err = Classify(err)
		if err != nil {
			return
		}
		var ks []string
		for it.Next() {
			if k := it.Key(); len(k) > 0 {
				ks = append(ks, k)
			}
		}
		r.mu.Lock()
		for _, k := range ks {
			r.keptStr = append(r.keptStr, [2]string{k, strings.Clone(k)})
		}
		r.mu.Unlock()
		rec.N = len(ks)
		it.Close()
	case "snap.mutate":
		// scribble over everything that was handed out so far
		r.mu.Lock()
		for _, kv := range r.kept {
			for i := range kv.alias {
				kv.alias[i] ^= 0xff
			}
			for i := range kv.copy {
				kv.copy[i] ^= 0xff
			}
		}
		// String() and Byte() of one response may share memory; that is the caller's own data,
		// so the string copies are refreshed after the caller's in-place modification
		for i := range r.keptStr {
			r.keptStr[i][1] = strings.Clone(r.keptStr[i][0])
		}
		rec.N = len(r.kept)
		r.mu.Unlock()
	case "snap.putbuf":
		// the caller reuses the buffer it passed to Put as soon as Put returned
		buf := []byte(op.Val)
		rec.Err = Classify(dm.Put(ctx, key, buf))
		for i := range buf {
			buf[i] = 'Z'
		}
	case "snap.check":
		r.mu.Lock()
		for _, kv := range r.kept {
			if !bytes.Equal(kv.alias, kv.copy) {
				rec.Keys = append(rec.Keys, fmt.Sprintf("%s (%s): handed out %q, now reads %q", kv.key, kv.from, kv.copy, kv.alias))
			}
		}
		for _, ks := range r.keptStr {
			if ks[0] != ks[1] {
				rec.Keys = append(rec.Keys, fmt.Sprintf("string (value or iterator key): handed out %q, now reads %q", ks[1], ks[0]))
			}
		}
		rec.N = len(r.kept)
		r.mu.Unlock()
	default:
		rec.Err = "other:unknown value op " + op.K
	}
}
