package exec

import (
	"bytes"
	"fmt"
	"net"
	"strconv"
	"time"

	"verif/plan"
	"verif/sim/cluster"
)

// fuzzConn is a raw RESP connection used by the fz.* ops (C16).
type fuzzConn struct {
	c   net.Conn
	seq int
}

func (r *Run) fzDial(id, m int) (net.Conn, error) {
	node := clientNodeBase + 200 + id
	return r.N.Dial(node, r.N.Incarnation(node), cluster.AddrOfIdx(m))
}

func respArray(args []string) []byte {
	var b bytes.Buffer
	fmt.Fprintf(&b, "*%d\r\n", len(args))
	for _, a := range args {
		fmt.Fprintf(&b, "$%d\r\n%s\r\n", len(a), a)
	}
	return b.Bytes()
}

// readUntil reads until token appears, the peer closes, or the simulated deadline passes.
func readUntil(c net.Conn, token []byte, d time.Duration) (got []byte, status string) {
	deadline := time.Now().Add(d)
	buf := make([]byte, 4096)
	for {
		if i := bytes.Index(got, token); i >= 0 {
			return got[:i], ""
		}
		c.SetReadDeadline(deadline)
		n, err := c.Read(buf)
		got = append(got, buf[:n]...)
		if err != nil {
			if i := bytes.Index(got, token); i >= 0 {
				return got[:i], ""
			}
			if ne, ok := err.(net.Error); ok && ne.Timeout() {
				return got, "timeout"
			}
			return got, "closed"
		}
		if len(got) > 8<<20 {
			return got, "flood"
		}
	}
}

func (r *Run) doFuzz(sc *plan.Script, op *plan.Op, rec *plan.Rec) {
	r.mu.Lock()
	if r.fz == nil {
		r.fz = map[int]*fuzzConn{}
	}
	fc := r.fz[sc.ID]
	if fc == nil {
		fc = &fuzzConn{}
		r.fz[sc.ID] = fc
	}
	r.mu.Unlock()
	member := sc.M
	ensure := func() bool {
		if fc.c != nil {
			return true
		}
		c, err := r.fzDial(sc.ID, member)
		if err != nil {
			rec.Err = "dial:" + err.Error()
			return false
		}
		fc.c = c
		return true
	}
	drop := func() {
		if fc.c != nil {
			fc.c.Close()
			fc.c = nil
		}
	}
	wait := 5 * time.Second
	if op.Dur > 0 {
		wait = msd(op.Dur)
	}
	switch op.K {
	case "fz.cmd", "fz.bytes":
		if !ensure() {
			return
		}
		fc.seq++
		token := []byte("verif-" + strconv.Itoa(sc.ID) + "-" + strconv.Itoa(fc.seq) + "\r\n")
		var payload []byte
		if op.K == "fz.cmd" {
			args := op.Args
			if op.Flag { // arguments are base64 (binary tokens)
				args = nil
				for _, a := range op.Args {
					args = append(args, string(b64(a)))
				}
			}
			payload = respArray(args)
		} else {
			payload = b64(op.Val)
		}
		payload = append(payload, respArray([]string{"PING", string(token[:len(token)-2])})...)
		if _, err := fc.c.Write(payload); err != nil {
			rec.Err = "write:" + err.Error()
			drop()
			return
		}
		got, st := readUntil(fc.c, token, wait)
		rec.Err = st
		if len(got) > 80 {
			got = got[:80]
		}
		rec.Info = string(got)
		if st != "" {
			drop()
		}
	case "fz.fresh":
		// a brand-new connection must be served
		c, err := r.fzDial(sc.ID+50, member)
		if err != nil {
			rec.Err = "dial:" + err.Error()
			return
		}
		defer c.Close()
		token := []byte("fresh-" + strconv.Itoa(int(r.K.Stamp())) + "\r\n")
		c.Write(respArray([]string{"PING", string(token[:len(token)-2])}))
		_, st := readUntil(c, token, wait)
		rec.Err = st
	case "fz.reset":
		drop()
	default:
		rec.Err = "other:unknown fuzz op " + op.K
	}
}
