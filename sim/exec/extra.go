package exec

import (
	"context"
	"os"
	"runtime"
	"encoding/binary"
	"time"

	"github.com/olric-data/olric"
	"encoding/json"
	"strconv"
	"strings"

	"github.com/cespare/xxhash/v2"

	"verif/plan"
	"verif/sim/cluster"
	"verif/sim/simnet"
)

// HKey mirrors olric's default key hash: xxhash64(dmap name + key).
func HKey(dmn, key string) uint64 { return xxhash.Sum64String(dmn + key) }

func (r *Run) doStats(op *plan.Op, rec *plan.Rec) {
	m := r.C.Members[op.M]
	if m == nil || m.EC == nil {
		rec.Err = "other:no member"
		return
	}
	st, err := m.EC.Stats(context.Background(), m.Addr)
	if err != nil {
		rec.Err = Classify(err)
		return
	}
	b, _ := json.Marshal(st)
	rec.Info = string(b)
}

func (r *Run) doCtlExtra(sc *plan.Script, op *plan.Op, rec *plan.Rec) bool {
	switch op.K {
	case "ctl.stacks":
		// debugging aid: all goroutine stacks to stderr
		buf := make([]byte, 8<<20)
		os.Stderr.Write(buf[:runtime.Stack(buf, true)])
	case "ctl.snapshot":
		rec.Snap = r.Snapshot(op.Flag)
	case "ctl.plant":
		r.plant(op, rec)
	case "ctl.rawscan":
		r.rawScan(op, rec)
	case "ctl.cut_backups":
		r.cutBackups(op, rec)
	case "ctl.heal_all":
		r.healAll()
	case "ctl.cut_link":
		// RESP traffic between members M and Count is refused (Dur 0) or silently lost (Dur 1);
		// memberlist traffic is unaffected, both stay members
		st := simnet.LinkRefuse
		if op.Dur == 1 {
			st = simnet.LinkBlackhole
		}
		if op.M != op.Count && op.M < len(r.C.Members) && op.Count < len(r.C.Members) {
			r.N.SetLink(cluster.NodeOfIdx(op.M), cluster.NodeOfIdx(op.Count), simnet.ClassRESP, st)
			r.K.Count("fault.link_cut", 1)
			rec.Info = "cut m" + itoa(op.M) + "-m" + itoa(op.Count)
		} else {
			rec.Err = "skipped"
		}
	case "ctl.members":
		m := r.C.Members[op.M]
		mem, err := m.EC.Members(context.Background())
		rec.Err, rec.N = Classify(err), len(mem)
	case "ctl.newdmap":
		// opening a DMap through the embedded client of member M
		m := r.C.Members[op.M]
		_, err := m.EC.NewDMap(op.DM + "x")
		rec.Err = Classify(err)
	case "ctl.get_all":
		r.getAll(op, rec)
	case "ctl.owner":
		dmn := op.DM
		if dmn == "" {
			dmn = r.P.DMap
		}
		rec.Int = int64(r.OwnerOf(dmn, op.Key))
	default:
		return false
	}
	return true
}

// resolveVictim turns a role-tagged failure op (Tag owner|backup|coord|any, Key) into a
// concrete member index among the running members 0..n-2 (member n-1 is the reserved entry).
func (r *Run) resolveVictim(op *plan.Op, rec *plan.Rec) bool {
	if op.Count > 0 && op.Tag == "" {
		// departure only once every asserted key has its backups
		if ok, why := r.backedUp(op.Count); !ok {
			rec.Err, rec.Info = "skipped", "precondition: "+why
			r.K.Count("probe.stop_skipped_no_backups", 1)
			return false
		}
	}
	switch op.Tag {
	case "owner", "backup", "coord", "any":
	default:
		return true
	}
	run := r.C.Running()
	reserved := r.P.Cluster.Members - 1
	var cands []int
	for _, m := range run {
		if m.Idx != reserved {
			cands = append(cands, m.Idx)
		}
	}
	if len(cands) == 0 || len(run) <= 1 {
		rec.Err = "skipped"
		return false
	}
	isCand := func(i int) bool {
		for _, c := range cands {
			if c == i {
				return true
			}
		}
		return false
	}
	dmn := op.DM
	if dmn == "" {
		dmn = r.P.DMap
	}
	pick, role := -1, op.Tag
	rt := run[0].DB.VerifLocalRouting()
	route := rt[HKey(dmn, op.Key)%r.partitions()]
	switch op.Tag {
	case "owner":
		if n := len(route.PrimaryOwners); n > 0 {
			pick = clusterIdx(route.PrimaryOwners[n-1])
		}
	case "backup":
		for _, b := range route.ReplicaOwners {
			if i := clusterIdx(b); isCand(i) {
				pick = i
			}
		}
	case "coord":
		if mem, err := run[0].EC.Members(context.Background()); err == nil {
			for _, mm := range mem {
				if mm.Coordinator {
					pick = clusterIdx(mm.Name)
				}
			}
		}
	}
	if !isCand(pick) {
		pick = cands[int(r.K.Choice("victim", uint64(len(r.His)))%uint64(len(cands)))]
		role = "any"
	}
	// what the victim is for the asserted key space: primary or backup of the hot key?
	rel := ""
	for _, o := range route.PrimaryOwners {
		if clusterIdx(o) == pick {
			rel = "role=owner"
		}
	}
	for _, o := range route.ReplicaOwners {
		if clusterIdx(o) == pick {
			rel = "role=backup"
		}
	}
	op.M = pick
	rec.Op.M = pick
	rec.Info = "victim=m" + itoa(pick) + " as=" + role + " " + rel
	return true
}

func itoa(i int) string { return strconv.Itoa(i) }

func clusterIdx(addr string) int { return cluster.IdxOfAddr(addr) }

// getAll reads key through the embedded client of every running member.
func (r *Run) getAll(op *plan.Op, rec *plan.Rec) {
	dmn := op.DM
	if dmn == "" {
		dmn = r.P.DMap
	}
	for _, m := range r.C.Running() {
		c := plan.Copy{Member: m.Idx, Kind: "get"}
		dm, err := m.EC.NewDMap(dmn)
		if err != nil {
			c.Err = Classify(err)
			rec.Copies = append(rec.Copies, c)
			continue
		}
		g, err := dm.Get(context.Background(), op.Key)
		switch cl := Classify(err); {
		case err == nil:
			var tmp plan.Rec
			fillGet(&tmp, g)
			c.Found, c.Val, c.TTL, c.TS = true, tmp.Val, tmp.TTL, tmp.TS
		case cl == plan.ENotFound:
		default:
			c.Err = cl
		}
		rec.Copies = append(rec.Copies, c)
	}
}

// backedUp reports whether every live key k0..k<n-1> has its primary copy on the routed owner
// and min(R, running)-1 backup copies (the precondition the plan puts on a departure).
func (r *Run) backedUp(n int) (bool, string) {
	run := len(r.C.Running())
	want := r.P.Cluster.ReplicaCount - 1
	if want > run-1 {
		want = run - 1
	}
	keys := make([]string, 0, n+16)
	for i := 0; i < n; i++ {
		keys = append(keys, "k"+strconv.Itoa(i))
	}
	for i := 0; i < 16; i++ {
		keys = append(keys, "h"+strconv.Itoa(i)) // controller-owned keys of C03
	}
	for _, key := range keys {
		prim, back := 0, 0
		for _, c := range r.Copies(r.P.DMap, key) {
			if c.Found && c.Kind == "primary" && c.Routed == "owner" {
				prim++
			}
			if c.Found && c.Kind == "backup" && c.Routed == "backup" {
				back++
			}
		}
		if prim == 0 && back == 0 {
			continue
		}
		if prim != 1 || back < want {
			return false, key + " has " + strconv.Itoa(prim) + " primary and " + strconv.Itoa(back) + " backup copies, want 1 and " + strconv.Itoa(want)
		}
	}
	return true, ""
}

// cutBackups makes `count` backup owners of key unreachable for RESP traffic from the primary
// owner only (gossip keeps flowing, so they stay in the member list).
func (r *Run) cutBackups(op *plan.Op, rec *plan.Rec) {
	dmn := op.DM
	if dmn == "" {
		dmn = r.P.DMap
	}
	run := r.C.Running()
	rt := run[0].DB.VerifLocalRouting()
	route := rt[HKey(dmn, op.Key)%r.partitions()]
	if len(route.PrimaryOwners) == 0 {
		rec.Err = "other:no owner"
		return
	}
	owner := clusterIdx(route.PrimaryOwners[len(route.PrimaryOwners)-1])
	backups := route.ReplicaOwners
	n := op.Count
	if n > len(backups) {
		n = len(backups)
	}
	var cut []string
	st := simnet.LinkRefuse
	if op.Dur == 1 {
		st = simnet.LinkBlackhole
	}
	for i := 0; i < n; i++ {
		b := backups[i]
		if op.Flag {
			b = backups[len(backups)-1-i]
		}
		r.N.SetLink(cluster.NodeOfIdx(owner), cluster.NodeOfIdx(clusterIdx(b)), simnet.ClassRESP, st)
		cut = append(cut, "m"+itoa(clusterIdx(b)))
		r.K.Count("fault.backup_unreachable", 1)
	}
	rec.Int = int64(owner)
	rec.N = len(backups)
	rec.Info = "owner=m" + itoa(owner) + " backups=" + itoa(len(backups)) + " cut=" + strings.Join(cut, ",")
}

func (r *Run) healAll() {
	for _, a := range r.C.Members {
		for _, b := range r.C.Members {
			if a != nil && b != nil && a.Idx < b.Idx {
				r.N.SetLink(a.Node, b.Node, -1, simnet.LinkUp)
			}
		}
	}
	r.K.Count("fault.heal", 1)
}

// rawScan walks every partition with raw DM.SCAN cursors on its primary owner (or, with
// Flag, on its current backup owner) and returns the keys in rec.Keys.
func (r *Run) rawScan(op *plan.Op, rec *plan.Rec) {
	dmn := op.DM
	if dmn == "" {
		dmn = r.P.DMap
	}
	run := r.C.Running()
	rt := run[0].DB.VerifLocalRouting()
	ctx := context.Background()
	for part := uint64(0); part < r.partitions(); part++ {
		route := rt[part]
		owners := route.PrimaryOwners
		if op.Flag {
			owners = route.ReplicaOwners
		}
		if len(owners) == 0 {
			continue
		}
		rdb := r.ctlRaw(clusterIdx(owners[len(owners)-1]))
		cursor := "0"
		for i := 0; ; i++ {
			args := []any{"DM.SCAN", part, dmn, cursor}
			if op.Pattern != "" {
				args = append(args, "MATCH", op.Pattern)
			}
			if op.Count > 0 {
				args = append(args, "COUNT", op.Count)
			}
			if op.Flag {
				args = append(args, "RC")
			}
			res, err := rdb.Do(ctx, args...).Result()
			if err != nil {
				rec.Err = Classify(err)
				return
			}
			arr, ok := res.([]interface{})
			if !ok || len(arr) != 2 {
				rec.Err = "other:bad scan reply"
				return
			}
			cursor = fmtAny(arr[0])
			if ks, ok := arr[1].([]interface{}); ok {
				for _, k := range ks {
					rec.Keys = append(rec.Keys, fmtAny(k))
				}
			}
			if cursor == "0" {
				break
			}
			if i > 20000 {
				rec.Err = "other:scan did not terminate"
				return
			}
		}
	}
	rec.N = len(rec.Keys)
}

func fmtAny(v interface{}) string {
	switch x := v.(type) {
	case string:
		return x
	case int64:
		return strconv.FormatInt(x, 10)
	}
	return ""
}

// encodeEntry renders an entry in the replication wire format.
func encodeEntry(key, val string, ttl, ts int64) []byte {
	b := make([]byte, 0, 1+len(key)+28+len(val))
	b = append(b, byte(len(key)))
	b = append(b, key...)
	var u [8]byte
	for _, v := range []int64{ttl, ts, 0} {
		binary.BigEndian.PutUint64(u[:], uint64(v))
		b = append(b, u[:]...)
	}
	var l [4]byte
	binary.BigEndian.PutUint32(l[:], uint32(len(val)))
	b = append(b, l[:]...)
	return append(b, val...)
}

// plant creates conflicting copies (C06). Tag: "backup" (DM.PUTENTRY to the (M mod n)-th backup
// owner), "delbackup" (DM.DELENTRY RC there), "delprimary" (DM.DELENTRY on the owner), "merge" / "mergebackup" (a fragment pack with the
// entries Key and Keys delivered with INTERNAL.NODE.MOVEFRAGMENT to the primary / a backup owner,
// Count times). The timestamp is the newest existing copy's timestamp plus Delta (ns).
func (r *Run) plant(op *plan.Op, rec *plan.Rec) {
	dmn := op.DM
	if dmn == "" {
		dmn = r.P.DMap
	}
	ctx := context.Background()
	run := r.C.Running()
	rt := run[0].DB.VerifLocalRouting()
	part := HKey(dmn, op.Key) % r.partitions()
	route := rt[part]
	base := int64(0)
	for _, c := range r.Copies(dmn, op.Key) {
		if c.Found && c.TS > base {
			base = c.TS
		}
	}
	if base == 0 {
		base = time.Now().UnixNano()
	}
	ts := base + op.Delta
	rec.TS = ts
	owner := clusterIdx(route.PrimaryOwners[len(route.PrimaryOwners)-1])
	target := owner
	if op.Tag == "backup" || op.Tag == "delbackup" || op.Tag == "mergebackup" {
		if len(route.ReplicaOwners) == 0 {
			rec.Err = "skipped"
			return
		}
		target = clusterIdx(route.ReplicaOwners[op.M%len(route.ReplicaOwners)])
	}
	rec.Int = int64(target)
	rdb := r.ctlRaw(target)
	switch op.Tag {
	case "backup":
		rec.Err = Classify(rdb.Do(ctx, "DM.PUTENTRY", dmn, op.Key, string(encodeEntry(op.Key, op.Val, 0, ts))).Err())
	case "delbackup":
		rec.Err = Classify(rdb.Do(ctx, "DM.DELENTRY", dmn, op.Key, "RC").Err())
	case "delprimary":
		// the owner's own copy goes missing (as on a member that took the partition over without its data)
		rec.Err = Classify(rdb.Do(ctx, "DM.DELENTRY", dmn, op.Key).Err())
	case "merge", "mergebackup":
		ents := []olric.VerifEntry{{Key: op.Key, Value: []byte(op.Val), Timestamp: ts}}
		pack, err := olric.VerifFragmentPack(part, op.Tag == "mergebackup", dmn, 1<<16, ents)
		if err != nil {
			rec.Err = "other:pack:" + err.Error()
			return
		}
		n := op.Count
		if n <= 0 {
			n = 1
		}
		for i := 0; i < n; i++ {
			if err := rdb.Do(ctx, "INTERNAL.NODE.MOVEFRAGMENT", string(pack)).Err(); err != nil {
				rec.Err = Classify(err)
				return
			}
		}
		rec.N = n
	default:
		rec.Err = "other:unknown plant target " + op.Tag
	}
}
