package exec

import (
	"context"
	"encoding/json"

	"github.com/cespare/xxhash/v2"

	"verif/plan"
)

// HKey mirrors olric's default key hash: xxhash64(dmap name + key).
func HKey(dmn, key string) uint64 { return xxhash.Sum64String(dmn + key) }

func (r *Run) doStats(op *plan.Op, rec *plan.Rec) {
	m := r.C.Members[op.M]
	if m == nil || m.EC == nil {
		rec.Err = "other:no member"
		return
	}
	st, err := m.EC.Stats(context.Background(), m.Addr)
	if err != nil {
		rec.Err = Classify(err)
		return
	}
	b, _ := json.Marshal(st)
	rec.Info = string(b)
}

func (r *Run) doCtlExtra(sc *plan.Script, op *plan.Op, rec *plan.Rec) bool {
	switch op.K {
	case "ctl.snapshot":
		rec.Snap = r.Snapshot(op.Flag)
	case "ctl.owner":
		dmn := op.DM
		if dmn == "" {
			dmn = r.P.DMap
		}
		rec.Int = int64(r.OwnerOf(dmn, op.Key))
	default:
		return false
	}
	return true
}
