package exec

import (
	"context"
	"encoding/json"
	"fmt"

	"github.com/olric-data/olric"

	"verif/plan"
)

// doPipe runs the sub-operations of op.Args (JSON-encoded plan.Op values) as ONE pipeline of the
// cluster client: everything is queued first, then Exec, then the futures are read. The result of
// sub-operation j is rec.Keys[j] = JSON of a plan.Rec holding only the result fields.
func (r *Run) doPipe(sc *plan.Script, op *plan.Op, rec *plan.Rec) {
	ctx := context.Background()
	c, err := r.client(sc)
	if err != nil {
		rec.Err = "other:client:" + err.Error()
		return
	}
	dm, err := r.dmap(c, sc, op.DM)
	if err != nil {
		rec.Err = Classify(err)
		return
	}
	pipe, err := dm.Pipeline()
	if err != nil {
		rec.Err = "other:pipeline:" + err.Error()
		return
	}
	defer pipe.Close()
	type fut struct {
		op   plan.Op
		abs  int64
		qerr error
		put  *olric.FuturePut
		get  *olric.FutureGet
		del  *olric.FutureDelete
		exp  *olric.FutureExpire
		incr *olric.FutureIncr
		decr *olric.FutureDecr
		gp   *olric.FutureGetPut
	}
	var futs []*fut
	for _, a := range op.Args {
		var so plan.Op
		if err := json.Unmarshal([]byte(a), &so); err != nil {
			rec.Err = "other:harness:" + err.Error()
			return
		}
		f := &fut{op: so}
		switch so.K {
		case "put":
			f.abs = absExpiry(&so)
			f.put, f.qerr = pipe.Put(ctx, so.Key, so.Val, putOpts(&so, f.abs)...)
		case "get":
			f.get = pipe.Get(ctx, so.Key)
		case "del":
			f.del = pipe.Delete(ctx, so.Key)
		case "expire":
			f.exp, f.qerr = pipe.Expire(ctx, so.Key, msd(so.Dur))
		case "incr":
			f.incr, f.qerr = pipe.Incr(ctx, so.Key, int(so.Delta))
		case "decr":
			f.decr, f.qerr = pipe.Decr(ctx, so.Key, int(so.Delta))
		case "getput":
			f.gp, f.qerr = pipe.GetPut(ctx, so.Key, so.Val)
		default:
			f.qerr = fmt.Errorf("unsupported pipeline op %s", so.K)
		}
		futs = append(futs, f)
	}
	if err := pipe.Exec(ctx); err != nil {
		rec.Err = Classify(err)
		return
	}
	for _, f := range futs {
		var sr plan.Rec
		sr.Int = f.abs
		switch {
		case f.qerr != nil:
			sr.Err = Classify(f.qerr)
		case f.put != nil:
			sr.Err = Classify(f.put.Result())
		case f.get != nil:
			g, err := f.get.Result()
			sr.Err = Classify(err)
			if err == nil && g != nil {
				fillGet(&sr, g)
			}
		case f.del != nil:
			n, err := f.del.Result()
			sr.Err, sr.N = Classify(err), n
		case f.exp != nil:
			sr.Err = Classify(f.exp.Result())
		case f.incr != nil:
			n, err := f.incr.Result()
			sr.Err, sr.Int = Classify(err), int64(n)
		case f.decr != nil:
			n, err := f.decr.Result()
			sr.Err, sr.Int = Classify(err), int64(n)
		case f.gp != nil:
			g, err := f.gp.Result()
			sr.Err = Classify(err)
			if err == nil && g != nil {
				fillGet(&sr, g)
			}
		}
		b, _ := json.Marshal(sr)
		rec.Keys = append(rec.Keys, string(b))
	}
	rec.N = len(futs)
}
