package exec

import (
	"errors"
	"fmt"
	"sort"
	"time"

	"github.com/cespare/xxhash/v2"
	"github.com/olric-data/olric/config"
	"github.com/olric-data/olric/pkg/storage"

	"verif/plan"
)

// engines holds the storage engines driven directly by "eng.*" ops (C11, C20).
type engines struct {
	cfg    *config.Engine
	stores map[int]storage.Engine
	cursor map[int]uint64 // paused scans ("eng.scanpage"): the cursor to resume from, per store
}

func (r *Run) engine(id int) (storage.Engine, error) {
	if r.eng == nil {
		e := config.NewEngine()
		if ts := r.P.Cluster.TableSize; ts > 0 {
			e.Config["tableSize"] = uint64(ts)
		}
		if v := r.P.Cluster.MaxIdleTableMs; v > 0 {
			e.Config["maxIdleTableTimeout"] = time.Duration(v) * time.Millisecond
		}
		if err := e.Sanitize(); err != nil {
			return nil, err
		}
		r.eng = &engines{cfg: e, stores: map[int]storage.Engine{}}
	}
	if s, ok := r.eng.stores[id]; ok {
		return s, nil
	}
	s, err := r.eng.cfg.Implementation.Fork(storage.NewConfig(r.eng.cfg.Config))
	if err != nil {
		return nil, err
	}
	if err := s.Start(); err != nil {
		return nil, err
	}
	r.eng.stores[id] = s
	return s, nil
}

func engErr(err error) string {
	switch {
	case err == nil:
		return ""
	case errors.Is(err, storage.ErrKeyNotFound):
		return plan.ENotFound
	case errors.Is(err, storage.ErrKeyTooLarge):
		return plan.EKeyTooLarge
	case errors.Is(err, storage.ErrEntryTooLarge):
		return plan.EEntryTooLarge
	}
	return "other:" + err.Error()
}

func hk(key string) uint64 { return xxhash.Sum64String(key) }

// doEngine executes one eng.* op. Op.M selects the store, Op.Delta carries the ttl (ms,
// absolute) and Op.Count the timestamp for writes.
func (r *Run) doEngine(op *plan.Op, rec *plan.Rec) {
	s, err := r.engine(op.M)
	if err != nil {
		rec.Err = "other:engine:" + err.Error()
		return
	}
	mk := func() storage.Entry {
		e := s.NewEntry()
		e.SetKey(op.Key)
		e.SetValue([]byte(op.Val))
		e.SetTTL(op.Delta)
		e.SetTimestamp(int64(op.Count))
		return e
	}
	switch op.K {
	case "eng.put":
		rec.Err = engErr(s.Put(hk(op.Key), mk()))
	case "eng.putraw":
		rec.Err = engErr(s.PutRaw(hk(op.Key), mk().Encode()))
	case "eng.del":
		rec.Err = engErr(s.Delete(hk(op.Key)))
	case "eng.updatettl":
		rec.Err = engErr(s.UpdateTTL(hk(op.Key), mk()))
	case "eng.get":
		e, err := s.Get(hk(op.Key))
		rec.Err = engErr(err)
		if err == nil {
			rec.Has, rec.Val, rec.TTL, rec.TS, rec.Info = true, string(e.Value()), e.TTL(), e.Timestamp(), e.Key()
		}
	case "eng.getraw":
		b, err := s.GetRaw(hk(op.Key))
		rec.Err = engErr(err)
		if err == nil {
			e := s.NewEntry()
			e.Decode(b)
			rec.Has, rec.Val, rec.TTL, rec.TS, rec.Info = true, string(e.Value()), e.TTL(), e.Timestamp(), e.Key()
		}
	case "eng.getttl":
		t, err := s.GetTTL(hk(op.Key))
		rec.Err, rec.TTL, rec.Has = engErr(err), t, err == nil
	case "eng.getkey":
		k, err := s.GetKey(hk(op.Key))
		rec.Err, rec.Info, rec.Has = engErr(err), k, err == nil
	case "eng.check":
		rec.Has = s.Check(hk(op.Key))
	case "eng.range":
		seen := map[string]string{}
		dup := 0
		s.Range(func(h uint64, e storage.Entry) bool {
			if _, ok := seen[e.Key()]; ok {
				dup++
			}
			seen[e.Key()] = string(e.Value())
			return true
		})
		for k := range seen {
			rec.Keys = append(rec.Keys, k+"="+seen[k])
		}
		sort.Strings(rec.Keys)
		rec.N, rec.Int = len(seen), int64(dup)
	case "eng.stats":
		st := s.Stats()
		rec.N = st.Length
		rec.Info = fmt.Sprintf("%d/%d/%d/%d", st.Allocated, st.Inuse, st.Garbage, st.NumTables)
		rec.Int = int64(st.NumTables)
	case "eng.scan":
		var cursor uint64
		count := op.Count
		if count <= 0 {
			count = 10
		}
		for i := 0; ; i++ {
			var err error
			f := func(e storage.Entry) bool { rec.Keys = append(rec.Keys, e.Key()); return true }
			if op.Pattern != "" {
				cursor, err = s.ScanRegexMatch(cursor, op.Pattern, count, f)
			} else {
				cursor, err = s.Scan(cursor, count, f)
			}
			if err != nil {
				rec.Err = engErr(err)
				break
			}
			if cursor == 0 {
				break
			}
			if i > 100000 {
				rec.Err = "other:scan did not terminate"
				break
			}
		}
		rec.N = len(rec.Keys)
	case "eng.scanpage":
		// Tag "begin": one page from cursor 0, the cursor is kept; Tag "rest": resume and run to the end.
		if r.eng.cursor == nil {
			r.eng.cursor = map[int]uint64{}
		}
		count := max(op.Count, 1)
		f := func(e storage.Entry) bool { rec.Keys = append(rec.Keys, e.Key()); return true }
		if op.Tag == "begin" {
			cur, err := s.Scan(0, count, f)
			rec.Err, rec.Has = engErr(err), cur == 0
			r.eng.cursor[op.M] = cur
		} else {
			cur := r.eng.cursor[op.M]
			for i := 0; cur != 0; i++ {
				var err error
				if cur, err = s.Scan(cur, count, f); err != nil {
					rec.Err = engErr(err)
					break
				}
				if i > 100000 {
					rec.Err = "other:scan did not terminate"
					break
				}
			}
			rec.Has = true
		}
		rec.N = len(rec.Keys)
	case "eng.compact":
		done, err := s.Compaction()
		rec.Err, rec.Has = engErr(err), done
	case "eng.compact_all":
		for i := 0; i < 100000; i++ {
			done, err := s.Compaction()
			if err != nil {
				rec.Err = engErr(err)
				return
			}
			rec.N = i + 1
			if done {
				rec.Has = true
				return
			}
		}
	case "eng.transfer":
		// export one table of store M, merge it into store Ref (newest timestamp wins), drop it
		dst, err := r.engine(op.Ref)
		if err != nil {
			rec.Err = "other:" + err.Error()
			return
		}
		it := s.TransferIterator()
		if !it.Next() {
			rec.Info = "empty"
			return
		}
		data, idx, err := it.Export()
		if err != nil {
			rec.Info = "export:" + err.Error()
			return
		}
		err = dst.Import(data, func(h uint64, e storage.Entry) error {
			cur, gerr := dst.Get(h)
			if errors.Is(gerr, storage.ErrKeyNotFound) {
				return dst.Put(h, e)
			}
			if gerr != nil {
				return gerr
			}
			if cur.Timestamp() >= e.Timestamp() {
				return nil
			}
			return dst.Put(h, e)
		})
		if err != nil {
			rec.Err = engErr(err)
			return
		}
		rec.Err = engErr(it.Drop(idx))
		rec.Has = true
	default:
		rec.Err = "other:unknown engine op " + op.K
	}
}
