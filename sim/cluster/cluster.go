// Package cluster manages olric member life cycles inside the simulation.
package cluster

import (
	"context"
	"fmt"
	"io"
	"log"
	"net"
	"os"
	"sort"
	"strings"
	"time"

	"github.com/hashicorp/memberlist"
	"github.com/olric-data/olric"
	"github.com/olric-data/olric/config"

	"verif/plan"
	"verif/sim/simnet"
	"verif/sim/simrt"
)

const (
	StateNew = iota
	StateRunning
	StateLeft
	StateCrashed
)

type Member struct {
	Idx   int
	Node  int
	Inc   int
	Addr  string // RESP address = member name
	DB    *olric.Olric
	EC    *olric.EmbeddedClient
	State int
	done  chan error
}

type Cluster struct {
	K       *simrt.Kernel
	N       *simnet.Net
	Spec    plan.ClusterSpec
	Members []*Member // index = member idx; restarted members replace the slot
	LogW    io.Writer
	// Strict demands fully handed-over partitions (one primary owner, exactly the wanted backups).
	Strict   bool
	// Quiet, when larger than the default, is how long the routing view must stay unchanged.
	Quiet time.Duration
	lastView string
	// SigInvariant is the first observed breach of "equal routing signature => equal owners" (see
	// sampleSignatureInvariant); sampled whenever stabilisation is polled.
	SigInvariant string
}

func New(k *simrt.Kernel, n *simnet.Net, spec plan.ClusterSpec) *Cluster {
	var w io.Writer = io.Discard
	if os.Getenv("VERIF_LOG") != "" {
		w = &stampWriter{k: k}
	}
	return &Cluster{K: k, N: n, Spec: spec, LogW: w}
}

func NodeOfIdx(idx int) int { return idx + 1 }
func AddrOfIdx(idx int) string {
	return net.JoinHostPort(simnet.IPOf(NodeOfIdx(idx)), fmt.Sprint(simnet.RESPPort))
}
func IdxOfAddr(addr string) int { return simnet.NodeOf(addr) - 1 }

func ms(v int) time.Duration { return time.Duration(v) * time.Millisecond }

func (c *Cluster) config(idx, inc int) (*config.Config, chan struct{}, error) {
	s := c.Spec
	node := NodeOfIdx(idx)
	ip := simnet.IPOf(node)
	cfg := config.New("local")
	cfg.BindAddr = ip
	cfg.BindPort = simnet.RESPPort
	cfg.LogOutput = c.LogW
	cfg.Logger = log.New(c.LogW, fmt.Sprintf("[m%d] ", idx), 0)
	cfg.LogLevel = "DEBUG"
	cfg.LogVerbosity = 6
	if c.LogW == io.Discard {
		cfg.LogLevel = "ERROR"
		cfg.LogVerbosity = 1
	}
	if s.Partitions > 0 {
		cfg.PartitionCount = s.Partitions
	}
	if s.ReplicaCount > 0 {
		cfg.ReplicaCount = s.ReplicaCount
	}
	if s.ReadQuorum > 0 {
		cfg.ReadQuorum = s.ReadQuorum
	}
	if s.WriteQuorum > 0 {
		cfg.WriteQuorum = s.WriteQuorum
	}
	if s.MemberCountQuorum > 0 {
		cfg.MemberCountQuorum = int32(s.MemberCountQuorum)
	}
	cfg.ReadRepair = s.ReadRepair
	if s.AsyncReplication {
		cfg.ReplicationMode = config.AsyncReplicationMode
	}
	if s.RoutingPushMs > 0 {
		cfg.RoutingTablePushInterval = ms(s.RoutingPushMs)
	}
	if s.BalancerMs > 0 {
		cfg.TriggerBalancerInterval = ms(s.BalancerMs)
	}
	cfg.LeaveTimeout = 500 * time.Millisecond
	cfg.JoinRetryInterval = 200 * time.Millisecond
	cfg.MaxJoinAttempts = 20
	cfg.KeepAlivePeriod = 0

	dm := &config.DMaps{}
	dm.Engine = config.NewEngine()
	if s.TableSize > 0 {
		dm.Engine.Config["tableSize"] = uint64(s.TableSize)
	}
	if s.MaxIdleTableMs > 0 {
		dm.Engine.Config["maxIdleTableTimeout"] = ms(s.MaxIdleTableMs)
	}
	dm.NumEvictionWorkers = 1
	if s.EvictWorkers > 0 {
		dm.NumEvictionWorkers = int64(s.EvictWorkers)
	}
	if s.JanitorMs > 0 {
		dm.CheckEmptyFragmentsInterval = ms(s.JanitorMs)
	}
	if s.CompactionMs > 0 {
		dm.TriggerCompactionInterval = ms(s.CompactionMs)
	}
	dm.MaxKeys, dm.MaxInuse, dm.LRUSamples = s.MaxKeys, s.MaxInuse, s.LRUSamples
	if s.EvictionPolicy != "" {
		dm.EvictionPolicy = config.EvictionPolicy(s.EvictionPolicy)
	}
	dm.MaxIdleDuration = ms(s.MaxIdleMs)
	dm.TTLDuration = ms(s.TTLMs)
	if len(s.Custom) > 0 {
		dm.Custom = map[string]config.DMap{}
		names := make([]string, 0, len(s.Custom))
		for n := range s.Custom {
			names = append(names, n)
		}
		sort.Strings(names)
		for _, n := range names {
			cs := s.Custom[n]
			d := config.DMap{MaxKeys: cs.MaxKeys, MaxInuse: cs.MaxInuse, LRUSamples: cs.LRUSamples,
				MaxIdleDuration: ms(cs.MaxIdleMs), TTLDuration: ms(cs.TTLMs)}
			if cs.EvictionPolicy != "" {
				d.EvictionPolicy = config.EvictionPolicy(cs.EvictionPolicy)
			}
			if cs.TableSize > 0 {
				d.Engine = config.NewEngine()
				d.Engine.Config["tableSize"] = uint64(cs.TableSize)
			}
			dm.Custom[n] = d
		}
	}
	cfg.DMaps = dm

	mc := memberlist.DefaultLocalConfig()
	mc.BindAddr = ip
	mc.BindPort = simnet.MLPort
	mc.AdvertiseAddr = ip
	mc.AdvertisePort = simnet.MLPort
	mc.LogOutput = nil
	if s.ProbeIntervalMs > 0 {
		mc.ProbeInterval = ms(s.ProbeIntervalMs)
	}
	if s.ProbeTimeoutMs > 0 {
		mc.ProbeTimeout = ms(s.ProbeTimeoutMs)
	}
	if s.GossipMs > 0 {
		mc.GossipInterval = ms(s.GossipMs)
	}
	if s.SuspicionMult > 0 {
		mc.SuspicionMult = s.SuspicionMult
	}
	if s.PushPullMs > 0 {
		mc.PushPullInterval = ms(s.PushPullMs)
	}
	mc.DisableTcpPings = false
	tr, err := c.N.NewMLTransport(node, inc)
	if err != nil {
		return nil, nil, err
	}
	mc.Transport = tr
	cfg.MemberlistConfig = mc

	cl := config.NewClient()
	cl.Dialer = c.N.DialerFor(node, inc)
	if s.ClientReadTimeoutMs > 0 {
		cl.ReadTimeout = ms(s.ClientReadTimeoutMs)
		cl.WriteTimeout = ms(s.ClientReadTimeoutMs)
	}
	if s.ClientMaxRetries != 0 {
		cl.MaxRetries = s.ClientMaxRetries
	}
	cl.PoolSize = 8
	if s.ClientPoolSize > 0 {
		cl.PoolSize = s.ClientPoolSize
	}
	cfg.Client = cl

	started := make(chan struct{})
	cfg.Started = func() { close(started) }

	// peers: every running member's memberlist address
	for _, m := range c.Members {
		if m != nil && m.State == StateRunning && m.Idx != idx {
			cfg.Peers = append(cfg.Peers, net.JoinHostPort(simnet.IPOf(m.Node), fmt.Sprint(simnet.MLPort)))
		}
	}
	if err := cfg.Sanitize(); err != nil {
		return nil, nil, err
	}
	return cfg, started, nil
}

// Start creates member idx (a new incarnation if the slot was used) and waits
// until olric reports it started, or until the bound expires.
func (c *Cluster) Start(idx int, bound time.Duration) error {
	for len(c.Members) <= idx {
		c.Members = append(c.Members, nil)
	}
	node := NodeOfIdx(idx)
	inc := c.N.Incarnation(node)
	cfg, started, err := c.config(idx, inc)
	if err != nil {
		return err
	}
	db, err := olric.New(cfg)
	if err != nil {
		return err
	}
	m := &Member{Idx: idx, Node: node, Inc: inc, Addr: AddrOfIdx(idx), DB: db, State: StateRunning, done: make(chan error, 1)}
	c.Members[idx] = m
	c.K.Tracef("start member %d inc=%d", idx, inc)
	go func() {
		m.done <- db.Start()
	}()
	t := time.NewTimer(bound)
	defer t.Stop()
	select {
	case <-started:
	case err := <-m.done:
		m.State = StateLeft
		return fmt.Errorf("member %d: Start returned early: %v", idx, err)
	case <-t.C:
		return fmt.Errorf("member %d: not started within %v", idx, bound)
	}
	m.EC = db.NewEmbeddedClient()
	return nil
}

// Leave shuts a member down gracefully (real Olric.Shutdown).
func (c *Cluster) Leave(idx int) error {
	m := c.Members[idx]
	if m == nil || m.State != StateRunning {
		return nil
	}
	c.K.Tracef("leave member %d", idx)
	m.State = StateLeft
	ctx, cancel := context.WithTimeout(context.Background(), 10*time.Second)
	defer cancel()
	err := m.DB.Shutdown(ctx)
	// Let what the member sent before it stopped (leave broadcast, connection closes)
	// reach its peers, then retire whatever is still registered under this node.
	time.Sleep(2*c.N.Cfg.MaxLat + time.Millisecond)
	c.N.CrashNode(m.Node, true)
	return err
}

// Crash removes a member abruptly: it is cut out of the network first; its
// goroutines are reaped in the background and cannot be observed by anybody.
func (c *Cluster) Crash(idx int, reset bool) {
	m := c.Members[idx]
	if m == nil || m.State != StateRunning {
		return
	}
	m.State = StateCrashed
	c.N.CrashNode(m.Node, reset)
	c.K.Count("fault.crash", 1)
	go func() {
		ctx, cancel := context.WithTimeout(context.Background(), 2*time.Second)
		defer cancel()
		_ = m.DB.Shutdown(ctx)
	}()
}

func (c *Cluster) Running() []*Member {
	var r []*Member
	for _, m := range c.Members {
		if m != nil && m.State == StateRunning {
			r = append(r, m)
		}
	}
	return r
}

// Signature summarises one member's local view: members and routing table.
func (c *Cluster) LocalView(m *Member) (v string, err error) {
	defer func() {
		// a member that has not received its first routing table yet has nil owner lists
		if r := recover(); r != nil {
			v, err = "uninitialised", fmt.Errorf("routing not initialised: %v", r)
		}
	}()
	rt := m.DB.VerifLocalRouting()
	ids := make([]uint64, 0, len(rt))
	for id := range rt {
		ids = append(ids, id)
	}
	sort.Slice(ids, func(i, j int) bool { return ids[i] < ids[j] })
	var sb strings.Builder
	for _, id := range ids {
		r := rt[id]
		fmt.Fprintf(&sb, "%d:%s|%s;", id, strings.Join(r.PrimaryOwners, ","), strings.Join(r.ReplicaOwners, ","))
	}
	return sb.String(), nil
}

// Stable reports whether all running members hold the same, settled routing view:
// identical tables, one primary owner per partition, all owners running, and
// expected backup counts.
func (c *Cluster) Stable() (bool, string) {
	run := c.Running()
	if len(run) == 0 {
		return false, "no members"
	}
	alive := map[string]bool{}
	for _, m := range run {
		alive[m.Addr] = true
	}
	c.sampleSignatureInvariant(run)
	var first string
	for i, m := range run {
		mem, err := m.EC.Members(context.Background())
		if err != nil {
			return false, err.Error()
		}
		if len(mem) != len(run) {
			return false, fmt.Sprintf("m%d sees %d members, want %d", m.Idx, len(mem), len(run))
		}
		v, verr := c.LocalView(m)
		if verr != nil {
			return false, verr.Error()
		}
		if i == 0 {
			first = v
		} else if v != first {
			return false, fmt.Sprintf("m%d routing differs from m%d", m.Idx, run[0].Idx)
		}
	}
	rt := run[0].DB.VerifLocalRouting()
	wantBackups := c.Spec.ReplicaCount - 1
	if wantBackups < 0 {
		wantBackups = 0
	}
	if wantBackups > len(run)-1 {
		wantBackups = len(run) - 1
	}
	if uint64(len(rt)) != c.partitions() {
		return false, "routing table incomplete"
	}
	for id, r := range rt {
		if len(r.PrimaryOwners) < 1 {
			return false, fmt.Sprintf("part %d has no primary owner", id)
		}
		if c.Strict && len(r.PrimaryOwners) != 1 {
			return false, fmt.Sprintf("part %d has %d primary owners", id, len(r.PrimaryOwners))
		}
		for _, o := range r.PrimaryOwners {
			if !alive[o] {
				return false, fmt.Sprintf("part %d primary owner %s not running", id, o)
			}
		}
		if len(r.ReplicaOwners) < wantBackups || (c.Strict && len(r.ReplicaOwners) != wantBackups) {
			return false, fmt.Sprintf("part %d has %d backups, want %d", id, len(r.ReplicaOwners), wantBackups)
		}
		for _, o := range r.ReplicaOwners {
			if !alive[o] {
				return false, fmt.Sprintf("part %d backup owner %s not running", id, o)
			}
		}
	}
	c.lastView = first
	return true, ""
}

// sampleSignatureInvariant: two members that have applied the same pushed table (equal routing
// signature) name the same primary owner for every partition. The coordinator amends its own
// lists after a push (left-over data reports) without a new signature; that may add previous
// owners but must never change who the owner is. The first breach is kept in SigInvariant.
func (c *Cluster) sampleSignatureInvariant(run []*Member) {
	if c.SigInvariant != "" {
		return
	}
	defer func() { recover() }() // a member without its first table yet
	type view struct {
		idx int
		rt  olric.RoutingTable
	}
	bySig := map[uint64]view{}
	for _, m := range run {
		sig := m.DB.VerifRoutingSignature()
		if sig == 0 {
			continue
		}
		rt := m.DB.VerifLocalRouting()
		if prev, ok := bySig[sig]; ok {
			for id, r := range rt {
				o := prev.rt[id]
				if len(r.PrimaryOwners) == 0 || len(o.PrimaryOwners) == 0 {
					continue
				}
				a, b := r.PrimaryOwners[len(r.PrimaryOwners)-1], o.PrimaryOwners[len(o.PrimaryOwners)-1]
				if a != b {
					c.SigInvariant = fmt.Sprintf("at %v m%d and m%d have applied the same routing table (signature %x) but name different owners for partition %d: %s vs %s", c.K.Now(), m.Idx, prev.idx, sig, id, a, b)
					return
				}
			}
		} else {
			bySig[sig] = view{m.Idx, rt}
		}
	}
}

func (c *Cluster) partitions() uint64 {
	if c.Spec.Partitions > 0 {
		return c.Spec.Partitions
	}
	return config.DefaultPartitionCount
}

// WaitStable polls Stable every `every` of simulated time up to bound.
func (c *Cluster) WaitStable(bound, every time.Duration) (time.Duration, error) {
	start := c.K.Now()
	var why string
	// the criterion must hold, with an unchanged routing view, for a quiet window
	quiet := 3*ms(c.Spec.BalancerMs) + 200*time.Millisecond
	if c.Quiet > quiet {
		quiet = c.Quiet
	}
	var since time.Duration = -1
	var view string
	for c.K.Now()-start <= bound {
		ok, w := c.Stable()
		if ok && (since < 0 || c.lastView != view) {
			since, view = c.K.Now(), c.lastView
		}
		if !ok {
			since = -1
		}
		if ok && c.K.Now()-since >= quiet {
			return c.K.Now() - start, nil
		}
		if ok {
			w = "routing view still changing"
		}
		why = w
		time.Sleep(every)
	}
	// member-to-member RESP connections opened during the last 10 simulated seconds (see RecentDials)
	storm := c.N.RecentDials(c.K.Now()-10*time.Second, 256)
	return c.K.Now() - start, fmt.Errorf("not stable after %v: %s; member_dials_last_10s=%d", bound, why, storm)
}

// stampWriter prefixes every log line with the simulated time (debugging aid).
type stampWriter struct{ k *simrt.Kernel }

func (w *stampWriter) Write(b []byte) (int, error) {
	fmt.Fprintf(os.Stderr, "%10.4f %s", w.k.Now().Seconds(), b)
	return len(b), nil
}
