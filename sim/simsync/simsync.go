// Package simsync provides Mutex and RWMutex look-alikes whose blocking is a
// durable block for testing/synctest (a channel receive) and whose hand-over
// order among waiters is a seeded decision. The instrumenter substitutes them
// for sync.Mutex / sync.RWMutex in olric's own packages.
package simsync

import (
	"sync"

	"verif/sim/simrt"
)

type waiter struct {
	ch chan struct{}
}

type core struct {
	mu      sync.Mutex // real, held for a few instructions only
	writer  bool
	readers int
	waitW   []*waiter
	waitR   []*waiter
	ord     uint64
	grants  uint64
}

func (c *core) pick(n int) int {
	if n == 1 {
		return 0
	}
	k := simrt.K
	if k == nil {
		return 0
	}
	if c.ord == 0 {
		c.ord = k.NextLockOrdinal()
	}
	c.grants++
	return int(k.Choice("lock", c.ord, c.grants) % uint64(n))
}

func (c *core) lock() {
	c.mu.Lock()
	if !c.writer && c.readers == 0 && len(c.waitW) == 0 {
		c.writer = true
		c.mu.Unlock()
		return
	}
	w := &waiter{ch: make(chan struct{})}
	c.waitW = append(c.waitW, w)
	c.mu.Unlock()
	if k := simrt.K; k != nil {
		k.Count("lock.contended", 1)
	}
	<-w.ch
}

func (c *core) tryLock() bool {
	c.mu.Lock()
	defer c.mu.Unlock()
	if !c.writer && c.readers == 0 && len(c.waitW) == 0 {
		c.writer = true
		return true
	}
	return false
}

// grantLocked hands the lock to waiters; c.mu held.
func (c *core) grantLocked(afterWriter bool) {
	if c.writer {
		return
	}
	if afterWriter && len(c.waitR) > 0 {
		for _, r := range c.waitR {
			c.readers++
			close(r.ch)
		}
		c.waitR = nil
		return
	}
	if c.readers == 0 && len(c.waitW) > 0 {
		i := c.pick(len(c.waitW))
		w := c.waitW[i]
		c.waitW = append(c.waitW[:i], c.waitW[i+1:]...)
		c.writer = true
		close(w.ch)
		return
	}
	if len(c.waitW) == 0 && len(c.waitR) > 0 {
		for _, r := range c.waitR {
			c.readers++
			close(r.ch)
		}
		c.waitR = nil
	}
}

func (c *core) unlock() {
	c.mu.Lock()
	if !c.writer {
		c.mu.Unlock()
		panic("simsync: unlock of unlocked mutex")
	}
	c.writer = false
	c.grantLocked(true)
	c.mu.Unlock()
}

func (c *core) rlock() {
	c.mu.Lock()
	if !c.writer && len(c.waitW) == 0 {
		c.readers++
		c.mu.Unlock()
		return
	}
	w := &waiter{ch: make(chan struct{})}
	c.waitR = append(c.waitR, w)
	c.mu.Unlock()
	if k := simrt.K; k != nil {
		k.Count("lock.contended", 1)
	}
	<-w.ch
}

func (c *core) tryRLock() bool {
	c.mu.Lock()
	defer c.mu.Unlock()
	if !c.writer && len(c.waitW) == 0 {
		c.readers++
		return true
	}
	return false
}

func (c *core) runlock() {
	c.mu.Lock()
	if c.readers <= 0 {
		c.mu.Unlock()
		panic("simsync: RUnlock of unlocked RWMutex")
	}
	c.readers--
	c.grantLocked(false)
	c.mu.Unlock()
}

// Mutex mirrors sync.Mutex.
type Mutex struct{ c core }

// Acquiring a lock is a scheduling point (like a function entry or a clock read): between a check
// made under one lock, or under none, and the acquisition of the next one another goroutine may run.
// The two sites are armed per run like every other yield site.
const (
	siteLock  = 0x10c0001
	siteRLock = 0x10c0002
)

func (m *Mutex) Lock()         { simrt.Yield(siteLock); m.c.lock() }
func (m *Mutex) Unlock()       { m.c.unlock() }
func (m *Mutex) TryLock() bool { return m.c.tryLock() }

// RWMutex mirrors sync.RWMutex (a waiting writer blocks new readers).
type RWMutex struct{ c core }

func (m *RWMutex) Lock()          { simrt.Yield(siteLock); m.c.lock() }
func (m *RWMutex) Unlock()        { m.c.unlock() }
func (m *RWMutex) TryLock() bool  { return m.c.tryLock() }
func (m *RWMutex) RLock()         { simrt.Yield(siteRLock); m.c.rlock() }
func (m *RWMutex) RUnlock()       { m.c.runlock() }
func (m *RWMutex) TryRLock() bool { return m.c.tryRLock() }

type rlocker RWMutex

func (r *rlocker) Lock()   { (*RWMutex)(r).RLock() }
func (r *rlocker) Unlock() { (*RWMutex)(r).RUnlock() }

func (m *RWMutex) RLocker() sync.Locker { return (*rlocker)(m) }
