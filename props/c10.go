package props

import (
	"encoding/json"
	"fmt"

	"verif/plan"
)

func init() {
	register(&Meta{ID: "C10", Level: "exploration", QuickSec: 45, ThoroSec: 900, WallMaxS: 120,
		Rule: "each run = seeded plan, one of three modes. maxkeys: LRU eviction with MaxKeys in 1..3 x partitions (including values below the partition count), LRUSamples 1-10, partition counts 7/13/23, 1-3 members, skewed key distributions, 40-200 Puts through random entry points; after every Put the key is read back and STATS of every member is taken: per owned partition Length <= max(1, MaxKeys/owned), no Put fails, the key just written is readable. maxinuse: the same with MaxInuse and equally sized entries: per partition Inuse <= MaxInuse/owned + one entry. maxidle: MaxIdleDuration 50-400 ms, keys are written and touched (Get/Put) at random instants relative to the window on the simulated clock; a key touched within the window must be readable; after a quiet period of the window plus enough eviction rounds (one random partition per 100 ms, miss probability < 1e-9) every key must read not-found; non-trivial = at least one eviction was necessary (maxkeys/maxinuse) or a key crossed the idle deadline (maxidle); distinct = (mode, limit, partitions, samples) x schedule fingerprints",
		Assume: []string{"membership stable", "'eventually disappears' is observed through Get (idle keys are hidden by the read path at once); physical reclamation by background eviction is covered by the C20 known finding"},
	}, genC10, oracleC10)
}

func genC10(seed uint64, tier string) *plan.Plan {
	r := NewRng(seed, "C10")
	p := base("C10", seed, tier, r)
	n := r.Range(1, 3)
	p.Cluster.Members = n
	p.Cluster.ReplicaCount = r.Range(1, min(2, n))
	parts := Pick(r, 7, 13, 23)
	p.Cluster.Partitions = uint64(parts)
	p.Cluster.TableSize = Pick(r, 1024, 1<<20)
	p.Yield = plan.YieldSpec{}
	mode := Pick(r, "maxkeys", "maxkeys", "maxinuse", "maxidle")
	sc := plan.Script{ID: 1, Kind: "ctl"}
	ent := func(op plan.Op) plan.Op {
		op.Tag, op.M = Pick(r, "emb", "emb", "cc", "raw"), r.Intn(n)
		return op
	}
	entrySize := 0
	switch mode {
	case "maxkeys", "maxinuse":
		p.Cluster.EvictionPolicy = "LRU"
		p.Cluster.LRUSamples = r.Range(1, 10)
		if mode == "maxkeys" {
			p.Cluster.MaxKeys = r.Range(1, 3*parts)
		} else {
			entrySize = 29 + 6 + 16 // metadata + key "k00000" + 16 byte value
			p.Cluster.MaxInuse = entrySize * r.Range(1, 3*parts)
		}
		nkeys := r.Range(10, 400)
		nput := r.Range(40, 200)
		hot := r.Range(1, 8)
		for i := 0; i < nput; i++ {
			ki := r.Intn(nkeys)
			if r.Bool(300) {
				ki = r.Intn(hot) // skew
			}
			k := fmt.Sprintf("k%05d", ki)
			sc.Ops = append(sc.Ops, ent(plan.Op{K: "put", Key: k, Val: fmt.Sprintf("%016d", i)}))
			sc.Ops = append(sc.Ops, ent(plan.Op{K: "get", Key: k}))
			if i%3 == 2 || i > nput-5 {
				for m := 0; m < n; m++ {
					sc.Ops = append(sc.Ops, plan.Op{K: "ctl.stats", M: m})
				}
			}
		}
	case "maxidle":
		w := Pick(r, 50, 120, 400)
		p.Cluster.MaxIdleMs = w
		nkeys := r.Range(2, 10)
		for i := 0; i < nkeys; i++ {
			sc.Ops = append(sc.Ops, ent(plan.Op{K: "put", Key: fmt.Sprintf("i%d", i), Val: "v000.0"}))
		}
		// active period: some keys are kept alive by touching them inside the window, the others are left alone
		alive := r.Range(1, nkeys)
		touchBase := r.Intn(3)
		for i, nops := 0, r.Range(10, 60); i < nops; i++ {
			sc.Ops = append(sc.Ops, plan.Op{K: "ctl.sleep", Dur: int64(Pick(r, 1, w/8, w/4, w/3))})
			for j := 0; j < alive; j++ {
				k := fmt.Sprintf("i%d", j)
				// how a key is kept alive is fixed per key: only by reads, only by rewrites (values of
				// one length, so that an overwrite can reuse the stored entry), or by both
				put := r.Bool(250)
				switch (j + touchBase) % 3 {
				case 0:
					put = false
				case 1:
					put = !r.Bool(150) // an occasional read shows whether the rewrites kept it alive
				}
				if put {
					sc.Ops = append(sc.Ops, ent(plan.Op{K: "put", Key: k, Val: fmt.Sprintf("w%03d.%d", i, j)}))
				} else {
					sc.Ops = append(sc.Ops, ent(plan.Op{K: "get", Key: k}))
				}
			}
		}
		// quiet period: window + enough eviction rounds (one random partition per 100 ms) that every
		// partition has been visited except with probability < 1e-9
		rounds := 1
		for q := 1.0; q > 1e-9; q *= 1 - 1/float64(parts) {
			rounds++
		}
		sc.Ops = append(sc.Ops, plan.Op{K: "ctl.sleep", Dur: int64(w + rounds*100 + 1000)})
		for i := 0; i < nkeys; i++ {
			sc.Ops = append(sc.Ops, ent(plan.Op{K: "get", Key: fmt.Sprintf("i%d", i), Tag: "final"}))
		}
	}
	p.Phases = []plan.Phase{{Name: mode, Clients: []plan.Script{sc}}}
	if mode != "maxidle" && r.Bool(500) {
		// several writers insert fresh keys at the same time (evictions of one fragment overlap);
		// the bounds are checked once they are all done
		burst := plan.Phase{Name: "burst", Yields: true}
		for w, nw := 0, r.Range(2, 6); w < nw; w++ {
			ws := entry(r, 10+w, n)
			for i, k := 0, r.Range(20, 80); i < k; i++ {
				ws.Ops = append(ws.Ops, plan.Op{K: "put", Key: fmt.Sprintf("b%d%04d", w, i), Val: fmt.Sprintf("%016d", i), D: int64(Pick(r, 0, 0, 100, 1000))})
			}
			burst.Clients = append(burst.Clients, ws)
		}
		st := plan.Script{ID: 1, Kind: "ctl"}
		for m := 0; m < n; m++ {
			st.Ops = append(st.Ops, plan.Op{K: "ctl.stats", M: m})
		}
		p.Phases = append(p.Phases, burst, plan.Phase{Name: "burst-stats", Clients: []plan.Script{st}})
	}
	p.Variant = fmt.Sprintf("%s/keys%d/inuse%d/idle%d/P%d/S%d/N%d/R%d", mode, p.Cluster.MaxKeys, p.Cluster.MaxInuse, p.Cluster.MaxIdleMs, parts, p.Cluster.LRUSamples, n, p.Cluster.ReplicaCount)
	p.Params["entry_size"] = int64(entrySize)
	rounds := 1
	for q := 1.0; q > 1e-9; q *= 1 - 1/float64(parts) {
		rounds++
	}
	p.Params["evict_grace_ms"] = int64(rounds*100 + 500)
	return p
}

func oracleC10(p *plan.Plan, his []plan.Rec, res *plan.Result) {
	recs := sortRecs(his)
	res.NTKey = p.Variant
	if p.Cluster.MaxIdleMs > 0 {
		oracleIdle(p, recs, res)
		return
	}
	entry := int(p.Params["entry_size"])
	var lastPut *plan.Rec
	stored := map[string]bool{}
	for i := range recs {
		r := &recs[i]
		switch r.Op.K {
		case "put":
			if r.Err != "" {
				viol(res, "put-failed-under-limit", errClass(r.Err)+fmt.Sprintf("/samples=%d", p.Cluster.LRUSamples), "%s with %s", descRecT(r), p.Variant)
				lastPut = nil
				continue
			}
			lastPut = r
			stored[r.Op.Key] = true
		case "get":
			if lastPut != nil && lastPut.Op.Key == r.Op.Key {
				if r.Err != "" || r.Val != lastPut.Op.Val {
					viol(res, "fresh-key-not-readable", fmt.Sprintf("samples=%d", p.Cluster.LRUSamples), "the key just written is not readable: %s then %s [%s]", descRecT(lastPut), descRecT(r), p.Variant)
				}
			}
		case "ctl.stats":
			var sb statsBlob
			if r.Info == "" || json.Unmarshal([]byte(r.Info), &sb) != nil {
				continue
			}
			owned := len(sb.Partitions)
			if owned == 0 {
				continue
			}
			total := 0
			for pid, part := range sb.Partitions {
				d := part.DMaps[p.DMap]
				total += d.Length
				if p.Cluster.MaxKeys > 0 {
					share := max(1, p.Cluster.MaxKeys/owned)
					if d.Length > share {
						viol(res, "maxkeys-exceeded", "partition", "m%d partition %s holds %d keys, its share is max(1, %d/%d) = %d [%s]", r.Op.M, pid, d.Length, p.Cluster.MaxKeys, owned, share, p.Variant)
					}
				}
				if p.Cluster.MaxInuse > 0 {
					bound := p.Cluster.MaxInuse/owned + entry
					if d.SlabInfo.Inuse > bound {
						viol(res, "maxinuse-exceeded", "partition", "m%d partition %s has %d B in use, bound %d/%d + one entry (%d B) = %d [%s]", r.Op.M, pid, d.SlabInfo.Inuse, p.Cluster.MaxInuse, owned, entry, bound, p.Variant)
					}
				}
			}
			if p.Cluster.MaxKeys >= owned && total > p.Cluster.MaxKeys {
				viol(res, "maxkeys-exceeded", "member", "m%d holds %d keys in total, MaxKeys=%d [%s]", r.Op.M, total, p.Cluster.MaxKeys, p.Variant)
			}
			if len(stored) > total {
				res.Nontrivial = true
			}
		}
	}
}

func oracleIdle(p *plan.Plan, recs []plan.Rec, res *plan.Result) {
	w := int64(p.Cluster.MaxIdleMs) * 1e6
	type acc struct {
		lo, hi int64 // last access instant lies in [lo, hi] (ns)
		val    string
		gone   bool // certainly idle-expired at some point: a later Get must not revive it
	}
	st := map[string]*acc{}
	for i := range recs {
		r := &recs[i]
		switch r.Op.K {
		case "put":
			if r.Err != "" {
				viol(res, "put-failed-under-limit", errClass(r.Err), "%s", descRecT(r))
				continue
			}
			st[r.Op.Key] = &acc{lo: r.TInv, hi: r.TRet, val: r.Op.Val}
		case "get":
			a := st[r.Op.Key]
			if a == nil {
				continue
			}
			// the window check uses millisecond granularity: (lastAccess + window)/1ms <= now/1ms
			within := r.TRet < a.lo+w-1e6     // certainly inside the window
			beyond := r.TInv > a.hi+w+int64(p.Params["evict_grace_ms"])*1e6 // window plus the eviction rounds bound
			switch {
			case a.gone:
				if r.Err == "" {
					viol(res, "idle-key-came-back", r.Op.Key, "%s although the key had been idle for longer than %d ms before [%s]", descRecT(r), p.Cluster.MaxIdleMs, p.Variant)
				}
			case within:
				if r.Err != "" || r.Val != a.val {
					viol(res, "evicted-within-idle-window", r.Op.Key, "%s: last access in [%.3f,%.3f] ms, window %d ms [%s]", descRecT(r), float64(a.lo)/1e6, float64(a.hi)/1e6, p.Cluster.MaxIdleMs, p.Variant)
				} else {
					a.lo, a.hi = r.TInv, r.TRet
				}
			case beyond:
				res.Nontrivial = true
				if r.Err != plan.ENotFound {
					viol(res, "idle-key-still-readable", r.Op.Key, "%s: last access in [%.3f,%.3f] ms, window %d ms: the key must be gone [%s]", descRecT(r), float64(a.lo)/1e6, float64(a.hi)/1e6, p.Cluster.MaxIdleMs, p.Variant)
				} else {
					a.gone = true
				}
			default:
				// on the edge of the window: either answer; a successful read refreshes the access time
				if r.Err == "" {
					a.lo, a.hi = r.TInv, r.TRet
				} else {
					a.gone = true
				}
			}
		}
	}
}
