package props

import (
	"fmt"
	"os"
	"sort"
	"strings"

	"verif/plan"
)

func init() {
	register(&Meta{ID: "C11", Level: "exploration", QuickSec: 40, ThoroSec: 900, WallMaxS: 60,
		Rule: "each run = one seeded sequence of storage.Engine calls on a forked kvstore (table size 128-1024 B, 3-6 keys, value sizes 1 B up to half a table so that keys spread, get overwritten and deleted across tables): Put, PutRaw, Delete, UpdateTTL, single Compaction steps and compaction-to-completion, Export+Import+Drop of one table into a second store (newest timestamp wins), clock advances that release idle tables; after every mutating step the affected key and Stats().Length are compared with a reference map, and Range, Scan (several page sizes, with and without a pattern), GetRaw/GetTTL/GetKey/Check sweeps run every few steps; 60 % of the runs end with 1-3 paused scans (one page, then deletes, writes and compaction steps that may recycle the table under the cursor, then the rest of the scan: every key untouched in between must have been yielded); half of the runs are short sequences (<= 6 mutating steps over a 3-key / 3-size alphabet, sampled densely), half are long (40-250 steps); non-trivial = the store spanned >= 2 tables and a compaction step or a transfer ran; distinct = sequences of (operation, key, size class)",
		Assume: []string{"the store is driven single-threaded, as under the fragment lock; the 'schedule' is the order of foreground calls, background compaction steps, transfers and clock advances", "exhaustive enumeration of short sequences would be model checking and is not claimed: the number of distinct short sequences covered is reported"},
	}, genC11, oracleC11)
}

func genC11(seed uint64, tier string) *plan.Plan {
	r := NewRng(seed, "C11")
	p := &plan.Plan{Prop: "C11", Seed: seed, Tier: tier, DMap: "dm", Params: map[string]int64{}, MaxSteps: 2_000_000}
	p.Net.MinLatUs, p.Net.MaxLatUs = 1, 1
	ts := Pick(r, 128, 256, 512, 1024)
	p.Cluster.TableSize = ts
	p.Cluster.MaxIdleTableMs = Pick(r, 10, 1000)
	short := r.Bool(500) || os.Getenv("VERIF_C11_SHORT") != ""
	nkeys := r.Range(3, 6)
	nsteps := r.Range(40, 250)
	sizes := []int{1, ts / 10, ts / 4, ts/2 - 40}
	if short {
		nkeys, nsteps = 3, r.Range(2, 6)
		sizes = []int{1, ts / 4, ts/2 - 40}
	}
	keys := make([]string, nkeys)
	for i := range keys {
		keys[i] = fmt.Sprintf("key-%d", i)
	}
	sc := plan.Script{ID: 1, Kind: "ctl"}
	tsn := 1000
	sweep := func() {
		for _, st := range []int{0, 1} {
			for _, k := range keys {
				sc.Ops = append(sc.Ops, plan.Op{K: "eng.get", Key: k, M: st})
			}
			sc.Ops = append(sc.Ops, plan.Op{K: "eng.stats", M: st})
		}
	}
	full := func() {
		sweep()
		for _, st := range []int{0, 1} {
			k := keys[r.Intn(nkeys)]
			sc.Ops = append(sc.Ops,
				plan.Op{K: "eng.range", M: st},
				plan.Op{K: "eng.scan", M: st, Count: Pick(r, 1, 2, 3, 10, 1000)},
				plan.Op{K: "eng.scan", M: st, Count: Pick(r, 1, 3, 100), Pattern: Pick(r, "^key-", "^key-[0-2]$", "nomatch", "1$")},
				plan.Op{K: Pick(r, "eng.getraw", "eng.getttl", "eng.getkey", "eng.check"), Key: k, M: st})
		}
	}
	sig := ""
	for i := 0; i < nsteps; i++ {
		k := keys[r.Intn(nkeys)]
		si := r.Intn(len(sizes))
		val := strings.Repeat(string(rune('a'+r.Intn(26))), max(1, sizes[si]))
		tsn++
		store := 0
		if r.Bool(150) {
			store = 1
		}
		var op plan.Op
		switch x := r.Intn(100); {
		case x < 34:
			op = plan.Op{K: "eng.put", Key: k, Val: val, M: store, Delta: int64(r.Intn(3)) * 1000, Count: tsn}
		case x < 44:
			op = plan.Op{K: "eng.putraw", Key: k, Val: val, M: store, Delta: int64(r.Intn(3)) * 1000, Count: tsn}
		case x < 60:
			op = plan.Op{K: "eng.del", Key: k, M: store}
		case x < 66:
			op = plan.Op{K: "eng.updatettl", Key: k, M: store, Delta: int64(r.Range(1, 9)) * 500, Count: tsn}
		case x < 78:
			op = plan.Op{K: "eng.compact", M: store}
		case x < 84:
			op = plan.Op{K: "eng.compact_all", M: store}
		case x < 94:
			op = plan.Op{K: "eng.transfer", M: 0, Ref: 1}
		default:
			op = plan.Op{K: "ctl.sleep", Dur: int64(Pick(r, 5, 50, 2000))}
		}
		sc.Ops = append(sc.Ops, op)
		sig += fmt.Sprintf("%s:%s:%d;", strings.TrimPrefix(op.K, "eng."), strings.TrimPrefix(op.Key, "key-"), si)
		if op.K == "eng.transfer" {
			sweep()
		} else if op.Key != "" {
			sc.Ops = append(sc.Ops, plan.Op{K: "eng.get", Key: op.Key, M: op.M}, plan.Op{K: "eng.stats", M: op.M})
		} else {
			sc.Ops = append(sc.Ops, plan.Op{K: "eng.stats", M: op.M})
		}
		if short || i%7 == 6 {
			full()
		}
	}
	if r.Bool(600) {
		// a paused scan: one page, then deletes, writes and compaction (which may recycle the table the
		// cursor points into), then the rest of the scan; keys untouched in between must be visited
		for ep, n := 0, r.Range(1, 3); ep < n; ep++ {
			sc.Ops = append(sc.Ops, plan.Op{K: "eng.scanpage", M: 0, Count: Pick(r, 1, 1, 2), Tag: "begin"})
			for j, m := 0, r.Range(1, 2*nkeys); j < m; j++ {
				k := keys[r.Intn(nkeys)]
				tsn++
				switch x := r.Intn(100); {
				case x < 50:
					sc.Ops = append(sc.Ops, plan.Op{K: "eng.del", Key: k, M: 0})
				case x < 65:
					sc.Ops = append(sc.Ops, plan.Op{K: "eng.put", Key: k, Val: strings.Repeat("z", max(1, sizes[r.Intn(len(sizes))])), M: 0, Count: tsn})
				case x < 80:
					sc.Ops = append(sc.Ops, plan.Op{K: "eng.compact", M: 0})
				default:
					sc.Ops = append(sc.Ops, plan.Op{K: "eng.compact_all", M: 0})
				}
			}
			sc.Ops = append(sc.Ops, plan.Op{K: "eng.scanpage", M: 0, Count: Pick(r, 1, 2, 10), Tag: "rest"})
			// refill, so that the next episode starts from several tables again
			for _, k := range keys {
				tsn++
				sc.Ops = append(sc.Ops, plan.Op{K: "eng.put", Key: k, Val: strings.Repeat("y", max(1, sizes[r.Intn(len(sizes))])), M: 0, Count: tsn})
			}
		}
		sweep()
	}
	sc.Ops = append(sc.Ops, plan.Op{K: "eng.compact_all", M: 0}, plan.Op{K: "eng.compact_all", M: 1})
	full()
	p.Phases = []plan.Phase{{Name: "engine", Clients: []plan.Script{sc}}}
	if short {
		p.Variant = "short/" + sig
	} else {
		p.Variant = fmt.Sprintf("long/%x", Hash64(sig))
	}
	p.Params["short"] = 0
	if short {
		p.Params["short"] = 1
	}
	return p
}

func Hash64(s string) uint64 {
	h := uint64(14695981039346656037)
	for i := 0; i < len(s); i++ {
		h = (h ^ uint64(s[i])) * 1099511628211
	}
	return h
}

type engEntry struct {
	val string
	ttl int64
	ts  int64
}

func oracleC11(p *plan.Plan, his []plan.Rec, res *plan.Result) {
	model := [2]map[string]engEntry{{}, {}}
	pending := false // a transfer happened: the next sweep re-synchronises which keys moved
	var before [2]map[string]engEntry
	multi, background := false, false
	var stable, yielded [2]map[string]bool // an open paused scan per store: keys untouched since it began / keys it yielded
	recs := sortRecs(his)
	short := p.Params["short"] != 0
	subj := func(r *plan.Rec) string {
		if short {
			return p.Variant
		}
		return r.Op.K
	}
	expectGet := func(r *plan.Rec, st int) {
		e, ok := model[st][r.Op.Key]
		switch {
		case ok && (r.Err != "" || !r.Has || r.Val != e.val || r.TTL != e.ttl || r.TS != e.ts || r.Info != r.Op.Key):
			viol(res, "lookup-mismatch", subj(r), "store %d: Get(%s) returned err=%q has=%v val=%.12q(%d B) ttl=%d ts=%d key=%q; the map holds val=%.12q(%d B) ttl=%d ts=%d [%s]", st, r.Op.Key, r.Err, r.Has, r.Val, len(r.Val), r.TTL, r.TS, r.Info, e.val, len(e.val), e.ttl, e.ts, p.Variant)
		case !ok && r.Err != plan.ENotFound:
			viol(res, "absent-key-found", subj(r), "store %d: Get(%s) returned err=%q val=%.12q ts=%d although the key is absent or deleted [%s]", st, r.Op.Key, r.Err, r.Val, r.TS, p.Variant)
		}
	}
	copyMap := func(m map[string]engEntry) map[string]engEntry {
		o := map[string]engEntry{}
		for k, v := range m {
			o[k] = v
		}
		return o
	}
	for i := range recs {
		r := &recs[i]
		st := r.Op.M
		if !strings.HasPrefix(r.Op.K, "eng.") {
			continue
		}
		if pending && r.Op.K != "eng.get" && r.Op.K != "eng.stats" {
			pending = false
		}
		switch r.Op.K {
		case "eng.put", "eng.putraw":
			if r.Err != "" {
				viol(res, "write-failed", subj(r), "%s(%s, %d B) on store %d failed: %s [%s]", r.Op.K, r.Op.Key, len(r.Op.Val), st, r.Err, p.Variant)
				continue
			}
			model[st][r.Op.Key] = engEntry{r.Op.Val, r.Op.Delta, int64(r.Op.Count)}
			delete(stable[st], r.Op.Key)
		case "eng.scanpage":
			if r.Err != "" {
				viol(res, "scan-failed", subj(r), "paused scan: %s [%s]", r.Err, p.Variant)
				stable[st] = nil
				continue
			}
			if r.Op.Tag == "begin" {
				stable[st], yielded[st] = map[string]bool{}, map[string]bool{}
				for k := range model[st] {
					stable[st][k] = true
				}
				for _, k := range r.Keys {
					if _, ok := model[st][k]; !ok {
						viol(res, "scan-yields-absent-key", subj(r), "first page of a paused Scan of store %d yielded %q which is not present [%s]", st, k, p.Variant)
					}
				}
			}
			if stable[st] == nil {
				continue
			}
			for _, k := range r.Keys {
				yielded[st][k] = true
			}
			if r.Op.Tag != "begin" || r.Has {
				for k := range stable[st] {
					if !yielded[st][k] {
						viol(res, "paused-scan-misses-stable-key", subj(r), "a Scan of store %d that was paused after one page and resumed after deletes/compaction never yielded %s, which was present and untouched from its first to its last page (yielded %v) [%s]", st, k, sortedKeys(yielded[st]), p.Variant)
					}
				}
				stable[st] = nil
			}
		case "eng.del":
			if r.Err != "" {
				viol(res, "delete-failed", subj(r), "Delete(%s) failed: %s", r.Op.Key, r.Err)
			}
			delete(model[st], r.Op.Key)
			delete(stable[st], r.Op.Key)
		case "eng.updatettl":
			delete(stable[st], r.Op.Key)
			e, ok := model[st][r.Op.Key]
			if ok != (r.Err == "") || (!ok && r.Err != plan.ENotFound) {
				viol(res, "updatettl-result", subj(r), "UpdateTTL(%s) on store %d returned %q, key present=%v [%s]", r.Op.Key, st, r.Err, ok, p.Variant)
			}
			if ok && r.Err == "" {
				e.ttl, e.ts = r.Op.Delta, int64(r.Op.Count)
				model[st][r.Op.Key] = e
			}
		case "eng.compact", "eng.compact_all":
			background = true
			if r.Err != "" {
				viol(res, "compaction-failed", subj(r), "%s on store %d: %s [%s]", r.Op.K, st, r.Err, p.Variant)
			}
			if r.Op.K == "eng.compact_all" && !r.Has {
				viol(res, "compaction-does-not-finish", subj(r), "compaction of store %d did not report done within %d steps [%s]", st, r.N, p.Variant)
			}
		case "eng.transfer":
			stable = [2]map[string]bool{}
			if r.Err != "" {
				viol(res, "transfer-failed", subj(r), "%s [%s]", r.Err, p.Variant)
			}
			if r.Has {
				background = true
				pending = true
				before = [2]map[string]engEntry{copyMap(model[0]), copyMap(model[1])}
			}
		case "eng.get":
			if pending && st == 0 {
				// which keys left store 0 with the exported table?
				e, ok := before[0][r.Op.Key]
				if ok && r.Err == plan.ENotFound {
					delete(model[0], r.Op.Key)
					cur, has := before[1][r.Op.Key]
					if !has || cur.ts < e.ts {
						model[1][r.Op.Key] = e
					}
					continue
				}
			}
			expectGet(r, st)
		case "eng.getraw":
			expectGet(r, st)
		case "eng.getttl":
			e, ok := model[st][r.Op.Key]
			if ok != r.Has || (ok && r.TTL != e.ttl) {
				viol(res, "getttl-mismatch", subj(r), "GetTTL(%s) on store %d: has=%v ttl=%d err=%q, map: present=%v ttl=%d [%s]", r.Op.Key, st, r.Has, r.TTL, r.Err, ok, e.ttl, p.Variant)
			}
		case "eng.getkey":
			_, ok := model[st][r.Op.Key]
			if ok != r.Has || (ok && r.Info != r.Op.Key) {
				viol(res, "getkey-mismatch", subj(r), "GetKey(%s) on store %d: has=%v key=%q err=%q, present=%v [%s]", r.Op.Key, st, r.Has, r.Info, r.Err, ok, p.Variant)
			}
		case "eng.check":
			if _, ok := model[st][r.Op.Key]; ok != r.Has {
				viol(res, "check-mismatch", subj(r), "Check(%s) on store %d = %v, present=%v [%s]", r.Op.Key, st, r.Has, ok, p.Variant)
			}
		case "eng.stats":
			if pending {
				continue // the move is re-synchronised by the sweep that follows the transfer
			}
			if r.Int >= 2 {
				multi = true
			}
			if r.N != len(model[st]) {
				viol(res, "length-mismatch", subj(r), "Stats().Length of store %d = %d, the map holds %d keys (%s) [%s]", st, r.N, len(model[st]), r.Info, p.Variant)
			}
		case "eng.range":
			var want []string
			for k, e := range model[st] {
				want = append(want, k+"="+e.val)
			}
			sort.Strings(want)
			if r.Int != 0 || strings.Join(want, ",") != strings.Join(r.Keys, ",") {
				viol(res, "range-mismatch", subj(r), "Range over store %d visited %d keys (%d twice), the map holds %d: got %v want %v [%s]", st, r.N, r.Int, len(want), keysOnly(r.Keys), keysOnly(want), p.Variant)
			}
		case "eng.scan":
			if r.Err != "" {
				viol(res, "scan-failed", subj(r), "%s [%s]", r.Err, p.Variant)
				continue
			}
			got := map[string]int{}
			for _, k := range r.Keys {
				got[k]++
			}
			for k, c := range got {
				if _, ok := model[st][k]; !ok {
					viol(res, "scan-yields-absent-key", subj(r), "Scan(count=%d,match=%q) of store %d yielded %q which is not present [%s]", r.Op.Count, r.Op.Pattern, st, k, p.Variant)
				}
				if c > 1 {
					viol(res, "scan-duplicate", subj(r), "Scan(count=%d,match=%q) of store %d yielded %s %d times [%s]", r.Op.Count, r.Op.Pattern, st, k, c, p.Variant)
				}
			}
			for k := range model[st] {
				if matchPat(r.Op.Pattern, k) && got[k] == 0 {
					viol(res, "scan-misses-key", subj(r), "Scan(count=%d,match=%q) of store %d did not yield %s (yielded %v) [%s]", r.Op.Count, r.Op.Pattern, st, k, r.Keys, p.Variant)
				}
				if !matchPat(r.Op.Pattern, k) && got[k] > 0 {
					viol(res, "scan-ignores-pattern", subj(r), "Scan(match=%q) yielded %s [%s]", r.Op.Pattern, k, p.Variant)
				}
			}
		}
	}
	res.Nontrivial = multi && background
	res.NTKey = p.Variant
}

func keysOnly(kv []string) []string {
	var o []string
	for _, s := range kv {
		if i := strings.IndexByte(s, '='); i >= 0 {
			o = append(o, s[:i])
		}
	}
	return o
}

// matchPat implements the four patterns the generator uses.
func matchPat(pat, k string) bool {
	switch pat {
	case "", "^key-":
		return true
	case "^key-[0-2]$":
		return k == "key-0" || k == "key-1" || k == "key-2"
	case "1$":
		return strings.HasSuffix(k, "1")
	}
	return false
}

func sortedKeys(m map[string]bool) []string {
	var o []string
	for k := range m {
		o = append(o, k)
	}
	sort.Strings(o)
	return o
}
