package props

import (
	"fmt"
	"strings"

	"verif/plan"
)

func init() {
	register(&Meta{ID: "C18", Level: "exploration", QuickSec: 40, ThoroSec: 900, WallMaxS: 120,
		Rule: "each run = seeded plan: 1-2 members (+ optional join), R 1-2, tables of 256-1024 B with fast compaction and idle-table release; values are read with Get / GetPut through the embedded and the cluster client and the very byte slices (and strings) handed out are kept next to private copies; then the store is churned so that the memory behind them is reused - overwrites, deletes, fills that recycle tables, clock advances that run compaction and release tables, a member join that migrates the partition - and all kept values are compared with their copies; the handed-out bytes are then overwritten in place and fresh reads through another client must still return the stored values; buffers passed to Put are scribbled over right after Put returned; non-trivial = at least one kept value's key was overwritten or deleted and its table recycled or migrated before the comparison; distinct = schedule fingerprints x churn signatures",
		Assume: []string{"single P: aliasing shows up as changed bytes after later writes, not as a data race"},
	}, genC18, oracleC18)
}

func genC18(seed uint64, tier string) *plan.Plan {
	r := NewRng(seed, "C18")
	p := base("C18", seed, tier, r)
	n := r.Range(1, 2)
	p.Cluster.Members = n
	p.Cluster.ReplicaCount = r.Range(1, 2)
	p.Cluster.Partitions = partitionsFor(r, 3)
	ts := Pick(r, 256, 512, 1024)
	p.Cluster.TableSize = ts
	p.Cluster.CompactionMs = Pick(r, 5, 20, 100)
	p.Cluster.MaxIdleTableMs = Pick(r, 5, 50)
	p.Cluster.RoutingPushMs, p.Cluster.BalancerMs = 500, 200
	p.Yield = plan.YieldSpec{}
	async := p.Cluster.ReplicaCount == 2 && n == 2 && r.Bool(400)
	if async {
		// asynchronous replication: the backups are written after Put has returned, i.e. while the
		// caller is already reusing its buffer
		p.Cluster.AsyncReplication = true
	}
	nkeys := r.Range(3, 12)
	vn := 0
	val := func() string {
		vn++
		return fmt.Sprintf("val-%04d-%s", vn, strings.Repeat(string(rune('a'+vn%26)), r.Range(0, ts/6)))
	}
	ent := func(op plan.Op) plan.Op {
		op.Tag, op.M = Pick(r, "emb", "emb", "cc"), r.Intn(n)
		return op
	}
	sc := plan.Script{ID: 1, Kind: "ctl"}
	key := func(i int) string { return fmt.Sprintf("k%02d", i) }
	for i := 0; i < nkeys; i++ {
		sc.Ops = append(sc.Ops, ent(plan.Op{K: "put", Key: key(i), Val: val()}))
	}
	rounds := r.Range(1, 4)
	joined := false
	for rd := 0; rd < rounds; rd++ {
		// hand out values
		for i := 0; i < r.Range(2, nkeys); i++ {
			k := key(r.Intn(nkeys))
			if r.Bool(150) {
				// an iterator over the whole DMap: every key it returns is kept
				sc.Ops = append(sc.Ops, ent(plan.Op{K: "snap.scan"}))
			} else if r.Bool(800) {
				sc.Ops = append(sc.Ops, ent(plan.Op{K: "snap.get", Key: k}))
			} else {
				sc.Ops = append(sc.Ops, ent(plan.Op{K: "snap.getput", Key: k, Val: val()}))
			}
		}
		// churn
		for i, nc := 0, r.Range(5, 60); i < nc; i++ {
			k := key(r.Intn(nkeys))
			switch x := r.Intn(100); {
			case x < 55:
				sc.Ops = append(sc.Ops, ent(plan.Op{K: "put", Key: k, Val: val()}))
			case x < 70:
				sc.Ops = append(sc.Ops, ent(plan.Op{K: "del", Key: k}))
			case x < 80:
				pb := ent(plan.Op{K: "snap.putbuf", Key: k, Val: val()})
				if async {
					pb.Tag = Pick(r, "embo", "embo", "emb")
				}
				sc.Ops = append(sc.Ops, pb)
				if async || r.Bool(300) {
					// every stored copy holds what was passed to Put, not what the caller wrote into its buffer afterwards
					sc.Ops = append(sc.Ops, plan.Op{K: "ctl.sleep", Dur: 30}, plan.Op{K: "ctl.copies", Key: k, Tag: "after-putbuf"})
				}
			case x < 92:
				sc.Ops = append(sc.Ops, plan.Op{K: "ctl.sleep", Dur: int64(Pick(r, 2, 30, 300))})
			default:
				sc.Ops = append(sc.Ops, ent(plan.Op{K: "put", Key: fmt.Sprintf("fill%d", r.Intn(20)), Val: val()}))
			}
		}
		if !joined && r.Bool(300) {
			joined = true
			sc.Ops = append(sc.Ops, plan.Op{K: "ctl.join", M: n}, plan.Op{K: "ctl.wait_stable", Dur: 120000, Dur2: 1500})
		}
		sc.Ops = append(sc.Ops, plan.Op{K: "ctl.sleep", Dur: int64(Pick(r, 50, 500))})
		sc.Ops = append(sc.Ops, ent(plan.Op{K: "snap.check"}))
	}
	// scribble over everything handed out; the store must not notice
	sc.Ops = append(sc.Ops, ent(plan.Op{K: "snap.mutate"}))
	for i := 0; i < nkeys; i++ {
		sc.Ops = append(sc.Ops, plan.Op{K: "get", Key: key(i), Tag: "cc"})
		sc.Ops = append(sc.Ops, plan.Op{K: "get", Key: key(i), Tag: "emb", M: 0})
	}
	sc.Ops = append(sc.Ops, ent(plan.Op{K: "snap.check"}))
	p.Phases = []plan.Phase{{Name: "snapshots", Clients: []plan.Script{sc}}}
	return p
}

func oracleC18(p *plan.Plan, his []plan.Rec, res *plan.Result) {
	recs := sortRecs(his)
	model := map[string]string{}
	present := map[string]bool{}
	handed := map[string]bool{}
	ever := map[string]map[string]bool{} // every value ever written to a key
	wrote := func(k, v string) {
		if ever[k] == nil {
			ever[k] = map[string]bool{}
		}
		ever[k][v] = true
	}
	// with asynchronous replication a read may return an older value of the key (two writes reach a
	// backup in either order): ordering is not what this property is about
	asyncStale := func(k, v string) bool {
		if p.Cluster.AsyncReplication && ever[k][v] {
			res.Counters["oracle.async_stale_reads"]++
			return true
		}
		return false
	}
	for i := range recs {
		r := &recs[i]
		switch r.Op.K {
		case "put", "snap.putbuf":
			if r.Err != "" {
				viol(res, "write-failed", r.Op.K, "%s", descRecT(r))
				continue
			}
			if handed[r.Op.Key] {
				res.Nontrivial = true
			}
			model[r.Op.Key], present[r.Op.Key] = r.Op.Val, true
			wrote(r.Op.Key, r.Op.Val)
		case "del":
			if handed[r.Op.Key] {
				res.Nontrivial = true
			}
			present[r.Op.Key] = false
		case "snap.getput":
			if r.Err == "" {
				if (r.Has != present[r.Op.Key] || (r.Has && r.Val != model[r.Op.Key])) && !(r.Has && asyncStale(r.Op.Key, r.Val)) {
					viol(res, "wrong-value-read", "getput", "GetPut(%s) returned has=%v %q, the key held present=%v %q", r.Op.Key, r.Has, short(r.Val), present[r.Op.Key], short(model[r.Op.Key]))
				}
				model[r.Op.Key], present[r.Op.Key] = r.Op.Val, true
				wrote(r.Op.Key, r.Op.Val)
				handed[r.Op.Key] = handed[r.Op.Key] || r.Has
			}
		case "snap.get":
			if r.Err == "" && r.Has {
				handed[r.Op.Key] = true
				if r.Val != model[r.Op.Key] && !asyncStale(r.Op.Key, r.Val) {
					viol(res, "wrong-value-read", "get", "Get(%s) returned %q, the key holds %q", r.Op.Key, short(r.Val), short(model[r.Op.Key]))
				}
			}
		case "get":
			want, ok := model[r.Op.Key], present[r.Op.Key]
			switch {
			case ok && (r.Err != "" || r.Val != want):
				class := "stored-value-changed"
				if strings.Contains(r.Val, "ZZZ") || strings.HasPrefix(r.Val, "Z") {
					class = "put-buffer-aliased"
				}
				if p.Cluster.AsyncReplication && class == "stored-value-changed" {
					// with asynchronous replication a backup may hold an older value (writes reach it in
					// either order) and a read after a hand-over may see it: ordering is not this property
					res.Counters["oracle.async_stale_reads"]++
					continue
				}
				viol(res, class, "via "+r.Op.Tag, "Get(%s) via %s returned err=%q %q, the stored value is %q (after the handed-out bytes were overwritten by the caller)", r.Op.Key, r.Op.Tag, r.Err, short(r.Val), short(want))
			case !ok && r.Err != plan.ENotFound && !p.Cluster.AsyncReplication:
				viol(res, "stored-value-changed", "via "+r.Op.Tag, "Get(%s) returned %q for a deleted key", r.Op.Key, short(r.Val))
			}
		case "ctl.copies":
			if r.Op.Tag == "after-putbuf" && present[r.Op.Key] {
				for _, c := range r.Copies {
					// (an older value on a backup is not judged here: with asynchronous replication two
					// writes may reach a backup in either order; mirroring is C04's subject)
					if c.Found && c.Val != model[r.Op.Key] && strings.Contains(c.Val, "ZZZ") {
						class := "put-buffer-aliased"
						viol(res, class, c.Kind+" copy", "m%d holds %q as %s copy of %s; Put was given %q (the caller overwrote its buffer with 'Z' after Put returned)", c.Member, short(c.Val), c.Kind, r.Op.Key, short(model[r.Op.Key]))
					}
				}
			}
		case "snap.check":
			for _, m := range r.Keys {
				viol(res, "returned-value-changed", "kept", "a value handed out earlier changed afterwards: %s", short2(m))
			}
		case "ctl.wait_stable":
			if r.Err != "" {
				res.Status, res.Reason = "inconclusive", r.Err
			}
		}
	}
	res.NTKey = fpKey(res)
}

func short2(s string) string {
	if len(s) > 300 {
		return s[:300] + "..."
	}
	return s
}
