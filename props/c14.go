package props

import (
	"fmt"
	"sort"
	"strconv"
	"strings"

	"verif/plan"
)

func init() {
	register(&Meta{ID: "C14", Level: "exploration", QuickSec: 40, ThoroSec: 900, WallMaxS: 120,
		Rule: "each run = seeded plan: 1-3 members, 2-6 subscriber connections (raw RESP) spread over the members, each running a script of SUBSCRIBE / PSUBSCRIBE / UNSUBSCRIBE / PUNSUBSCRIBE / disconnect steps over a small set of channels and patterns with the relations match / no match / overlap / duplicate subscription, and 1-3 concurrent publishers on different members sending uniquely numbered messages; afterwards every connection's received messages are collected and PUBSUB CHANNELS / NUMSUB / NUMPAT are queried on every member; oracle (reference subscription table updated at the acknowledgement of each step): every message is delivered exactly once to every subscription acknowledged before the PUBLISH was invoked and not withdrawn before it returned, never to a subscription that did not exist during the PUBLISH, per publisher in publication order per subscriber; PUBLISH returns the number of deliveries; nothing arrives after an acknowledged unsubscribe or a disconnect; the introspection commands equal the model; non-trivial = a message was published while another connection's subscription set was changing, or reached a subscriber on another member; distinct = schedule fingerprints",
		Assume: []string{"membership stable", "a subscription step that overlaps a PUBLISH in time may or may not receive that message"},
	}, genC14, oracleC14)
}

var c14Channels = []string{"news.a", "news.b", "sport", "n"}
var c14Patterns = []string{"news.*", "*", "s?ort", "news.a", "x*"}

func genC14(seed uint64, tier string) *plan.Plan {
	r := NewRng(seed, "C14")
	p := base("C14", seed, tier, r)
	n := r.Range(1, 3)
	p.Cluster.Members = n
	p.Cluster.Partitions = partitionsFor(r, n)
	yields(p, r)
	ph := plan.Phase{Name: "pubsub", Yields: true}
	nsub := r.Range(2, 6)
	for s := 0; s < nsub; s++ {
		sc := plan.Script{ID: 10 + s, Kind: "ctl", M: r.Intn(n)}
		inMode := false // the connection enters pub/sub mode with its first (P)SUBSCRIBE
		for i, k := 0, r.Range(2, 8); i < k; i++ {
			op := plan.Op{D: int64(Pick(r, 0, 200, 3000, 20000))}
			nk := r.Range(1, 2)
			x := r.Intn(100)
			if !inMode && x >= 60 {
				x = r.Intn(60)
			}
			inMode = true
			switch {
			case x < 35:
				op.K = "ps.sub"
				for j := 0; j < nk; j++ {
					op.Keys = append(op.Keys, c14Channels[r.Intn(len(c14Channels))])
				}
			case x < 60:
				op.K = "ps.psub"
				for j := 0; j < nk; j++ {
					op.Keys = append(op.Keys, c14Patterns[r.Intn(len(c14Patterns))])
				}
			case x < 78:
				op.K = "ps.unsub"
				if r.Bool(700) {
					op.Keys = []string{c14Channels[r.Intn(len(c14Channels))]}
				}
			case x < 92:
				op.K = "ps.punsub"
				if r.Bool(700) {
					op.Keys = []string{c14Patterns[r.Intn(len(c14Patterns))]}
				}
			default:
				op.K = "ps.ping"
			}
			sc.Ops = append(sc.Ops, op)
		}
		if r.Bool(250) {
			sc.Ops = append(sc.Ops, plan.Op{K: "ps.close", D: int64(Pick(r, 0, 5000))})
		}
		ph.Clients = append(ph.Clients, sc)
	}
	npub := r.Range(1, 3)
	for q := 0; q < npub; q++ {
		sc := plan.Script{ID: 30 + q, Kind: "ctl"}
		for i, k := 0, r.Range(3, 15); i < k; i++ {
			sc.Ops = append(sc.Ops, plan.Op{K: "ps.pub", Key: c14Channels[r.Intn(len(c14Channels))], Val: fmt.Sprintf("p%d-%03d", q, i), M: r.Intn(n), D: int64(Pick(r, 0, 300, 4000, 15000))})
		}
		ph.Clients = append(ph.Clients, sc)
	}
	if r.Bool(350) {
		// churn variant: some connections keep toggling their subscription to one hot channel (or a
		// pattern matching it) while the publishers send to it back to back, with many short pauses
		// at the scheduling points: a PUBLISH is in progress whenever a subscription is withdrawn
		p.Yield = plan.YieldSpec{ArmPermille: 700, ParkPermille: 500, MaxUs: int64(Pick(r, 100, 300, 900))}
		hot := c14Channels[r.Intn(2)]
		for s := 0; s < nsub && s < 3; s++ {
			sc := &ph.Clients[s]
			var tail []plan.Op
			if n := len(sc.Ops); n > 0 && sc.Ops[n-1].K == "ps.close" {
				tail, sc.Ops = []plan.Op{sc.Ops[n-1]}, sc.Ops[:n-1]
			}
			for i, k := 0, r.Range(8, 30); i < k; i++ {
				d := int64(Pick(r, 0, 100, 500, 2000))
				if r.Bool(300) {
					sc.Ops = append(sc.Ops, plan.Op{K: "ps.psub", Keys: []string{"news.*"}, D: d}, plan.Op{K: "ps.punsub", Keys: []string{"news.*"}, D: int64(Pick(r, 0, 100, 500, 2000))})
				} else {
					sc.Ops = append(sc.Ops, plan.Op{K: "ps.sub", Keys: []string{hot}, D: d}, plan.Op{K: "ps.unsub", Keys: []string{hot}, D: int64(Pick(r, 0, 100, 500, 2000))})
				}
			}
			sc.Ops = append(sc.Ops, tail...)
		}
		for q := 0; q < npub; q++ {
			sc := &ph.Clients[nsub+q]
			for i, k := 0, r.Range(20, 60); i < k; i++ {
				sc.Ops = append(sc.Ops, plan.Op{K: "ps.pub", Key: hot, Val: fmt.Sprintf("p%d-%03d", q, 100+i), M: r.Intn(n), D: int64(Pick(r, 0, 100, 400, 1500))})
			}
		}
	}
	if n >= 2 && r.Bool(250) {
		// for a while one member cannot reach another one (RESP refused or black-holed): a PUBLISH that
		// cannot be forwarded to a member must fail, not be acknowledged with a smaller count
		a := r.Intn(n)
		b := (a + 1 + r.Intn(n-1)) % n
		p.Cluster.ClientReadTimeoutMs = 300
		ph.Clients = append(ph.Clients, plan.Script{ID: 50, Kind: "ctl", Ops: []plan.Op{
			{K: "ctl.sleep", Dur: int64(Pick(r, 1, 5, 20))},
			{K: "ctl.cut_link", M: a, Count: b, Dur: int64(r.Intn(2))},
			{K: "ctl.sleep", Dur: int64(Pick(r, 5, 30, 200))},
			{K: "ctl.heal_all"},
			// go-redis keeps answering with the last dial error for up to a second after the heal
			{K: "ctl.sleep", Dur: 1500},
		}})
	}
	// quiescent tail: a last round of messages, then collection and introspection
	tail := plan.Phase{Name: "tail"}
	ts := plan.Script{ID: 40, Kind: "ctl"}
	for i, ch := range c14Channels {
		ts.Ops = append(ts.Ops, plan.Op{K: "ps.pub", Key: ch, Val: fmt.Sprintf("t-%03d", i), M: r.Intn(n)})
	}
	ts.Ops = append(ts.Ops, plan.Op{K: "ctl.sleep", Dur: 200})
	for m := 0; m < n; m++ {
		ts.Ops = append(ts.Ops, plan.Op{K: "ps.channels", M: m}, plan.Op{K: "ps.channels", M: m, Pattern: "news.*"}, plan.Op{K: "ps.numsub", M: m, Keys: c14Channels}, plan.Op{K: "ps.numpat", M: m})
	}
	tail.Clients = []plan.Script{ts}
	coll := plan.Phase{Name: "collect"}
	for s := 0; s < nsub; s++ {
		coll.Clients = append(coll.Clients, plan.Script{ID: 10 + s, Kind: "ctl", M: ph.Clients[s].M, Ops: []plan.Op{{K: "ps.collect"}}})
	}
	p.Phases = []plan.Phase{ph, tail, coll}
	return p
}

// globMatch implements the subset of redis glob syntax used by the patterns above (* and ?).
func globMatch(pat, s string) bool {
	if pat == "" {
		return s == ""
	}
	switch pat[0] {
	case '*':
		for i := 0; i <= len(s); i++ {
			if globMatch(pat[1:], s[i:]) {
				return true
			}
		}
		return false
	case '?':
		return s != "" && globMatch(pat[1:], s[1:])
	}
	return s != "" && s[0] == pat[0] && globMatch(pat[1:], s[1:])
}

type subIv struct {
	conn    int
	member  int
	pattern bool
	name    string
	from    uint64 // stamp of the acknowledgement (subscription certainly active after it)
	fromInv uint64 // stamp of the invocation (possibly active after it)
	to      uint64 // invocation stamp of the withdrawing step (certainly active before it); max = never
	toRet   uint64 // return stamp of the withdrawing step (possibly active before it)
	ackAt   uint64 // stamp at which the reader saw the (P)UNSUBSCRIBE acknowledgement frame (0 = none)
}

func oracleC14(p *plan.Plan, his []plan.Rec, res *plan.Result) {
	recs := sortRecs(his)
	const inf = ^uint64(0)
	var ivs []*subIv
	active := map[string]*subIv{} // conn/kind/name -> open interval
	connMember := map[int]int{}
	closeAll := func(conn int, pattern, both bool, inv, ret uint64) {
		for k, iv := range active {
			if iv.conn == conn && (both || iv.pattern == pattern) {
				iv.to, iv.toRet = inv, ret
				delete(active, k)
			}
		}
	}
	for i := range recs {
		r := &recs[i]
		if r.Client >= 10 && r.Client < 30 && r.Phase == 0 && r.Err != "" && strings.HasPrefix(r.Op.K, "ps.") {
			viol(res, "subscriber-step-failed", r.Op.K+"/"+r.Err, "connection %d: %s %v -> %s", r.Client, r.Op.K, r.Op.Keys, r.Err)
			return
		}
		switch r.Op.K {
		case "ps.sub", "ps.psub":
			for _, name := range r.Op.Keys {
				k := fmt.Sprintf("%d/%v/%s", r.Client, r.Op.K == "ps.psub", name)
				if active[k] != nil {
					continue // duplicate subscription: still one subscription
				}
				iv := &subIv{conn: r.Client, pattern: r.Op.K == "ps.psub", name: name, from: r.Ret, fromInv: r.Inv, to: inf, toRet: inf}
				active[k] = iv
				ivs = append(ivs, iv)
			}
		case "ps.unsub", "ps.punsub":
			pat := r.Op.K == "ps.punsub"
			if len(r.Op.Keys) == 0 {
				closeAll(r.Client, pat, false, r.Inv, r.Ret)
			}
			for _, name := range r.Op.Keys {
				k := fmt.Sprintf("%d/%v/%s", r.Client, pat, name)
				if iv := active[k]; iv != nil {
					iv.to, iv.toRet = r.Inv, r.Ret
					if r.Err == "" && r.TS > 0 {
						iv.ackAt = uint64(r.TS)
					}
					delete(active, k)
				}
			}
		case "ps.close":
			// the server learns about a disconnect only when the FIN arrives: it may keep
			// counting (and writing to) the connection for an unknown time
			closeAll(r.Client, false, true, r.Inv, inf)
		}
	}
	for _, ph := range p.Phases[:1] {
		for _, sc := range ph.Clients {
			connMember[sc.ID] = sc.M
		}
	}
	// received messages per connection
	type got struct {
		kind, pat, ch, payload string
		stamp                  uint64
	}
	recv := map[int][]got{}
	for i := range recs {
		r := &recs[i]
		if r.Op.K != "ps.collect" {
			continue
		}
		for _, m := range r.Keys {
			f := strings.SplitN(m, "|", 5)
			if len(f) != 5 {
				continue
			}
			st, _ := strconv.ParseUint(f[4], 10, 64)
			if f[0] == "other" {
				viol(res, "unexpected-push", fmt.Sprint(r.Client), "connection %d received %q", r.Client, m)
				continue
			}
			recv[r.Client] = append(recv[r.Client], got{f[0], f[1], f[2], f[3], st})
		}
	}
	// frame order on one connection: once the acknowledgement of UNSUBSCRIBE / PUNSUBSCRIBE for a
	// subscription has been read, no message for that subscription follows it (until the connection
	// subscribes to it again)
	for conn, gs := range recv {
		for _, g := range gs {
			name, pattern := g.ch, false
			if g.kind == "pmessage" {
				name, pattern = g.pat, true
			}
			var ended *subIv
			covered := false
			for _, iv := range ivs {
				if iv.conn != conn || iv.pattern != pattern || iv.name != name {
					continue
				}
				if iv.fromInv <= g.stamp && (iv.ackAt == 0 || g.stamp < iv.ackAt) {
					covered = true
				}
				if iv.ackAt != 0 && g.stamp > iv.ackAt {
					ended = iv
				}
			}
			if !covered && ended != nil {
				viol(res, "message-after-unsubscribe", g.kind, "connection %d read %s %q on %s (stamp %d) after the acknowledgement of its %s %q (stamp %d) and before any new subscription to it", conn, g.kind, g.payload, g.ch, g.stamp, map[bool]string{false: "UNSUBSCRIBE", true: "PUNSUBSCRIBE"}[pattern], name, ended.ackAt)
			}
		}
	}
	// per publish
	type pubT struct {
		r *plan.Rec
	}
	var pubs []*plan.Rec
	for i := range recs {
		if recs[i].Op.K == "ps.pub" {
			pubs = append(pubs, &recs[i])
		}
	}
	// link fault window: from the cut to 1.5 s after the heal (dial-error cache of the client library)
	faultFrom, faultTo := int64(-1), int64(-1)
	for i := range recs {
		switch recs[i].Op.K {
		case "ctl.cut_link":
			if recs[i].Err == "" {
				faultFrom = recs[i].TInv
			}
		case "ctl.heal_all":
			faultTo = recs[i].TRet + 1500e6
		}
	}
	// a PUBLISH that ran while the link was cut may have been sent again by the client library after a
	// time-out: its message may arrive more than once
	underFault := map[string]bool{}
	for _, pb := range pubs {
		if faultFrom >= 0 && pb.TRet >= faultFrom && pb.TInv <= faultTo {
			underFault[pb.Op.Val] = true
		}
	}
	delivered := map[string]int{} // conn/kind/name/payload -> count
	for conn, gs := range recv {
		lastSeq := map[string]string{}
		for _, g := range gs {
			name := g.ch
			if g.kind == "pmessage" {
				name = g.pat
			}
			delivered[fmt.Sprintf("%d/%s/%s/%s", conn, g.kind, name, g.payload)]++
			// order per publisher, per subscription
			pub := g.payload[:strings.IndexByte(g.payload+"-", '-')]
			key := pub + "/" + g.kind + "/" + name + "/" + g.ch
			if prev, ok := lastSeq[key]; ok && prev >= g.payload && pub != "t" && !(prev == g.payload && underFault[g.payload]) {
				viol(res, "publication-order", fmt.Sprintf("conn%d", conn), "connection %d received %s after %s on %s (%s %s)", conn, g.payload, prev, g.ch, g.kind, name)
			}
			lastSeq[key] = g.payload
		}
	}
	for _, pb := range pubs {
		failedUnderFault := false
		if pb.Err != "" {
			if faultFrom >= 0 && pb.TRet >= faultFrom && pb.TInv <= faultTo {
				// a PUBLISH that could not reach a member reports it; what it delivered before is not judged
				failedUnderFault = true
				res.Counters["oracle.publish_failed_under_fault"]++
			} else {
				viol(res, "publish-failed", errClass(pb.Err), "PUBLISH %s %s via m%d: %s", pb.Op.Key, pb.Op.Val, pb.Op.M, pb.Err)
				continue
			}
		}
		must, may := 0, 0
		type agg struct {
			certain, possible bool
			iv                *subIv
		}
		groups := map[string]*agg{}
		var order []string
		for _, iv := range ivs {
			matches := iv.name == pb.Op.Key
			if iv.pattern {
				matches = globMatch(iv.name, pb.Op.Key)
			}
			if !matches {
				continue
			}
			kind := "message"
			if iv.pattern {
				kind = "pmessage"
			}
			key := fmt.Sprintf("%d/%s/%s/%s", iv.conn, kind, iv.name, pb.Op.Val)
			g := groups[key]
			if g == nil {
				g = &agg{iv: iv}
				groups[key] = g
				order = append(order, key)
			}
			if iv.from < pb.Inv && iv.to > pb.Ret {
				g.certain, g.iv = true, iv
			}
			if iv.fromInv < pb.Ret && iv.toRet > pb.Inv {
				g.possible = true
			}
		}
		for _, key := range order {
			g := groups[key]
			iv := g.iv
			kind := "message"
			if iv.pattern {
				kind = "pmessage"
			}
			n := delivered[key]
			if failedUnderFault {
				delete(delivered, key)
				continue
			}
			if g.certain {
				must++
				if connMember[iv.conn] != pb.Op.M || pb.Phase == 0 {
					res.Nontrivial = true
				}
				if n == 0 {
					viol(res, "message-not-delivered", kind, "%s on %s (published via m%d, [%d,%d]) never reached connection %d (on m%d) subscribed to %s %q since %d", pb.Op.Val, pb.Op.Key, pb.Op.M, pb.Inv, pb.Ret, iv.conn, connMember[iv.conn], kind, iv.name, iv.from)
				}
			}
			if g.possible {
				may++
			}
			if n > 1 && !underFault[pb.Op.Val] {
				viol(res, "message-delivered-twice", kind, "%s on %s reached connection %d %d times for its subscription %q", pb.Op.Val, pb.Op.Key, iv.conn, n, iv.name)
			}
			if n > 0 && !g.possible {
				viol(res, "message-without-subscription", kind, "%s on %s ([%d,%d]) reached connection %d although no subscription %q of it was active during the call", pb.Op.Val, pb.Op.Key, pb.Inv, pb.Ret, iv.conn, iv.name)
			}
			delete(delivered, key)
		}
		if failedUnderFault {
			continue
		}
		if int(pb.Int) < must || (int(pb.Int) > may && !underFault[pb.Op.Val]) {
			viol(res, "publish-count", fmt.Sprintf("ch=%s", pb.Op.Key), "PUBLISH %s %s via m%d returned %d; between %d and %d subscriptions matched during the call", pb.Op.Key, pb.Op.Val, pb.Op.M, pb.Int, must, may)
		}
	}
	for key, n := range delivered {
		viol(res, "message-to-non-subscriber", strings.SplitN(key, "/", 3)[1], "a connection received a message it has no matching subscription for (conn/kind/subscription/payload = %s, %d times)", key, n)
	}
	// introspection at the quiescent tail
	for i := range recs {
		r := &recs[i]
		if r.Phase != 1 || r.Err != "" {
			continue
		}
		chans := map[string]map[int]bool{}
		pats := map[string]bool{}
		for _, iv := range ivs {
			if iv.to != inf || connMember[iv.conn] != r.Op.M {
				continue
			}
			if iv.pattern {
				pats[iv.name] = true
			} else {
				if chans[iv.name] == nil {
					chans[iv.name] = map[int]bool{}
				}
				chans[iv.name][iv.conn] = true
			}
		}
		switch r.Op.K {
		case "ps.channels":
			var want []string
			for c := range chans {
				if r.Op.Pattern == "" || globMatch(r.Op.Pattern, c) {
					want = append(want, c)
				}
			}
			sort.Strings(want)
			if strings.Join(want, ",") != strings.Join(r.Keys, ",") {
				viol(res, "pubsub-channels", fmt.Sprintf("pattern=%q", r.Op.Pattern), "PUBSUB CHANNELS %s on m%d returned %v, the distinct subscribed channels are %v", r.Op.Pattern, r.Op.M, r.Keys, want)
			}
		case "ps.numsub":
			for j := 0; j+1 < len(r.Keys); j += 2 {
				n, _ := strconv.Atoi(r.Keys[j+1])
				if n != len(chans[r.Keys[j]]) {
					viol(res, "pubsub-numsub", r.Keys[j], "PUBSUB NUMSUB on m%d reports %d subscribers for %s, %d connections are subscribed to it", r.Op.M, n, r.Keys[j], len(chans[r.Keys[j]]))
				}
			}
		case "ps.numpat":
			if int(r.Int) != len(pats) {
				viol(res, "pubsub-numpat", fmt.Sprintf("m%d", r.Op.M), "PUBSUB NUMPAT on m%d returned %d, %d distinct patterns are subscribed: %v", r.Op.M, r.Int, len(pats), sortedSet(pats))
			}
		}
	}
	res.NTKey = fpKey(res)
}
