package props

import (
	"encoding/base64"
	"fmt"
	"strings"

	"verif/plan"
)

var c16Commands = []string{
	"cluster.routingtable", "cluster.members", "internal.node.movefragment", "internal.node.updaterouting",
	"internal.node.lengthofpart", "ping", "stats", "dm.get", "dm.getentry", "dm.put", "dm.putentry", "dm.del",
	"dm.delentry", "dm.expire", "dm.pexpire", "dm.destroy", "dm.incr", "dm.decr", "dm.getput", "dm.incrbyfloat",
	"dm.lock", "dm.unlock", "dm.locklease", "dm.plocklease", "dm.scan", "publish", "publish.internal",
	"subscribe", "psubscribe", "pubsub", "nosuchcommand", "DM.PUT", "Dm.GeT",
}

var c16Tokens = []string{
	"fz", "k", "v", "", "0", "1", "-1", "7", "18446744073709551615", "99999999999999999999999", "9223372036854775807",
	"abc", "1.5", "-0.0", "NaN", "1e400", "NX", "nx", "XX", "EX", "ex", "PX", "EXAT", "PXAT", "MATCH", "COUNT", "RC", "RW", "LC",
	"\x00\xff\r\n", "*", "[", "channels", "numsub", "numpat",
}

var c16Templates = [][]string{
	{"dm.put", "fz", "k", "v", "EX", "10", "NX"}, {"dm.put", "fz", "k", "v", "PX", "100", "XX"}, {"dm.put", "fz", "k", "v", "EXAT", "99999999999"}, {"dm.put", "fz", "k", "v", "PXAT", "99999999999999"},
	{"dm.scan", "0", "fz", "0", "MATCH", "k*", "COUNT", "10"}, {"dm.scan", "3", "fz", "0", "COUNT", "1", "RC"},
	{"dm.lock", "fz", "lk", "0.01", "PX", "50"}, {"dm.lock", "fz", "lk2", "0.01", "EX", "1"}, {"dm.unlock", "fz", "lk", "00ff"}, {"dm.locklease", "fz", "lk", "00ff", "1"}, {"dm.plocklease", "fz", "lk", "00ff", "100"},
	{"dm.incr", "fz", "n", "1"}, {"dm.decr", "fz", "n", "1"}, {"dm.incrbyfloat", "fz", "f", "1.5"}, {"dm.getput", "fz", "k", "v", "RW"},
	{"dm.get", "fz", "k", "RW"}, {"dm.getentry", "fz", "k", "RC"}, {"dm.del", "fz", "k", "k2", "k3"}, {"dm.delentry", "fz", "k", "RC"},
	{"dm.expire", "fz", "k", "1"}, {"dm.pexpire", "fz", "k", "100"}, {"dm.destroy", "fz", "LC"}, {"dm.putentry", "fz", "k", "\x01kgarbage"},
	{"internal.node.lengthofpart", "0", "RC"}, {"internal.node.lengthofpart", "7"}, {"internal.node.movefragment", "\x83\xa6garbage"}, {"internal.node.updaterouting", "\x80", "123"},
	{"publish", "ch", "m"}, {"publish.internal", "ch", "m"}, {"pubsub", "numsub", "ch"}, {"pubsub", "channels", "*"}, {"pubsub", "numpat"},
	{"stats", "CR"}, {"cluster.members"}, {"cluster.routingtable"}, {"ping", "hello"},
}

const c16Batch = 400

// c16Vector returns the idx-th vector of the systematic enumeration: every command with every
// argument vector of length 0, 1 and 2 over the token alphabet.
func c16Vector(idx int) []string {
	if idx >= c16Short() {
		return c16SweepVector(idx - c16Short())
	}
	nt := len(c16Tokens)
	per := 1 + nt + nt*nt
	cmd := c16Commands[(idx/per)%len(c16Commands)]
	r := idx % per
	switch {
	case r == 0:
		return []string{cmd}
	case r <= nt:
		return []string{cmd, c16Tokens[r-1]}
	default:
		r -= 1 + nt
		return []string{cmd, c16Tokens[r/nt], c16Tokens[r%nt]}
	}
}

func c16Short() int {
	nt := len(c16Tokens)
	return len(c16Commands) * (1 + nt + nt*nt)
}

// c16Sweep is the second systematic part: every valid command form with every single argument
// replaced by every token (an option value that is negative, empty, huge or not a number; an option
// keyword replaced by another one), including the partition-addressed commands for every partition.
func c16SweepForms() [][]string {
	forms := append([][]string(nil), c16Templates...)
	for part := 0; part < 7; part++ {
		forms = append(forms, []string{"dm.scan", fmt.Sprint(part), "fz", "0", "COUNT", "5"},
			[]string{"dm.scan", fmt.Sprint(part), "fz", "0", "MATCH", "k.*", "COUNT", "5", "RC"})
	}
	return forms
}

func c16SweepTotal() int {
	n := 0
	for _, f := range c16SweepForms() {
		n += (len(f) - 1) * len(c16Tokens)
	}
	return n
}

func c16SweepVector(idx int) []string {
	nt := len(c16Tokens)
	for _, f := range c16SweepForms() {
		n := (len(f) - 1) * nt
		if idx < n {
			v := append([]string(nil), f...)
			v[1+idx/nt] = c16Tokens[idx%nt]
			return v
		}
		idx -= n
	}
	return []string{"ping"}
}

func c16Total() int {
	return c16Short() + c16SweepTotal()
}

func init() {
	space := (c16Total() + c16Batch - 1) / c16Batch
	register(&Meta{ID: "C16", Level: "exploration", QuickSec: 45, ThoroSec: 900, WallMaxS: 90, Space: space,
		Rule: fmt.Sprintf("argument vectors over a token alphabet (%d tokens: keywords in both cases, valid / empty / negative / huge / non-numeric numbers, empty and binary strings, in- and out-of-range partition ids) for %d command names (public, internal, unknown, mixed case): all vectors of length 0-2, and every valid command form (partition-addressed ones for every partition, all holding data) with each single argument replaced by each token, are enumerated systematically in batches of %d (%d batches; run i takes batch i), and every run adds %d longer vectors made by mutating valid command forms (truncation after an option, replaced, duplicated and swapped arguments, case changes) plus random byte streams written to the socket; every input is written to a simulated connection in seeded segments, followed on the same connection by a tagged PING, and every 25 inputs a fresh connection must be served; a second connection sends its own traffic concurrently. Violations: the worker process dies (panic in a handler), has to be killed because a goroutine spins, a well-formed request gets no reply within 5 simulated seconds (except waiting locks), or a fresh connection is not served; non-trivial = the batch contained at least one vector answered with an error and one answered normally; distinct = batches", len(c16Tokens), len(c16Commands), c16Batch, space, c16Batch/2),
		Assume: []string{"the in-bubble member runs the same redcon server, mux and handlers as olric-server; no OS sockets are involved", "a worker that dies or spins is observed from outside by the orchestrator (one OS process per run)"},
	}, genC16, oracleC16)
}

func genC16(seed uint64, tier string) *plan.Plan {
	space := (c16Total() + c16Batch - 1) / c16Batch
	batch := int(seed % uint64(space))
	r := NewRng(seed, "C16")
	p := base("C16", seed, tier, r)
	p.Cluster.Members = 2
	p.Cluster.ReplicaCount = 2
	p.Cluster.Partitions = 7
	p.Cluster.TableSize = 4096
	p.Net.SegmentPermille = uint64(Pick(r, 0, 300, 800))
	p.Yield = plan.YieldSpec{}
	p.Params["batch"] = int64(batch)
	enc := func(v []string) []string {
		out := make([]string, len(v))
		for i, a := range v {
			out[i] = base64.StdEncoding.EncodeToString([]byte(a))
		}
		return out
	}
	sc := plan.Script{ID: 1, Kind: "ctl", M: r.Intn(2)}
	add := func(v []string) {
		sc.Ops = append(sc.Ops, plan.Op{K: "fz.cmd", Args: enc(v), Flag: true})
		c := strings.ToLower(v[0])
		if c == "subscribe" || c == "psubscribe" {
			sc.Ops = append(sc.Ops, plan.Op{K: "fz.reset"})
		}
		if len(sc.Ops)%25 == 0 {
			sc.Ops = append(sc.Ops, plan.Op{K: "fz.fresh"})
		}
	}
	// some state for the commands to act on
	add([]string{"dm.put", "fz", "k", "v"})
	add([]string{"dm.put", "fz", "n", "5"})
	for i := 0; i < 40; i++ {
		// every partition holds a primary and a backup fragment of the DMap
		add([]string{"dm.put", "fz", fmt.Sprintf("k%d", i), "v"})
	}
	for i := batch * c16Batch; i < (batch+1)*c16Batch && i < c16Total(); i++ {
		add(c16Vector(i))
	}
	for i := 0; i < c16Batch/2; i++ {
		t := append([]string(nil), c16Templates[r.Intn(len(c16Templates))]...)
		for m, nm := 0, r.Range(1, 3); m < nm && len(t) > 0; m++ {
			switch r.Intn(6) {
			case 0:
				t = t[:r.Range(1, len(t))] // truncate (an option loses its value)
			case 1:
				t[r.Intn(len(t))] = c16Tokens[r.Intn(len(c16Tokens))]
			case 2:
				j := r.Intn(len(t))
				t = append(t[:j], append([]string{c16Tokens[r.Intn(len(c16Tokens))]}, t[j:]...)...)
			case 3:
				if len(t) > 2 {
					a, b := r.Range(1, len(t)-1), r.Range(1, len(t)-1)
					t[a], t[b] = t[b], t[a]
				}
			case 4:
				j := r.Intn(len(t))
				if r.Bool(500) {
					t[j] = strings.ToUpper(t[j])
				} else {
					t[j] = strings.ToLower(t[j])
				}
			case 5:
				t = append(t, t[len(t)-1])
			}
		}
		add(t)
	}
	// raw byte streams
	for i := 0; i < 12; i++ {
		n := r.Range(1, 120)
		b := make([]byte, n)
		for j := range b {
			switch r.Intn(5) {
			case 0:
				b[j] = "*$+-:\r\n"[r.Intn(7)]
			case 1:
				b[j] = byte('0' + r.Intn(10))
			default:
				b[j] = byte(r.Intn(256))
			}
		}
		if r.Bool(500) {
			b = append([]byte(fmt.Sprintf("*%d\r\n$%d\r\n", r.Range(-2, 1<<30), r.Range(-2, 1<<31))), b...)
		}
		sc.Ops = append(sc.Ops, plan.Op{K: "fz.bytes", Val: base64.StdEncoding.EncodeToString(b), Dur: 300}, plan.Op{K: "fz.reset"}, plan.Op{K: "fz.fresh"})
	}
	sc.Ops = append(sc.Ops, plan.Op{K: "fz.fresh"})
	// a second connection with ordinary traffic, interleaved with the first one's inputs
	other := plan.Script{ID: 2, Kind: "ctl", M: 1 - sc.M}
	for i := 0; i < 80; i++ {
		other.Ops = append(other.Ops, plan.Op{K: "fz.cmd", Args: enc([]string{"dm.put", "other", fmt.Sprintf("o%d", i%7), "x"}), Flag: true, D: int64(Pick(r, 0, 200, 2000))},
			plan.Op{K: "fz.cmd", Args: enc([]string{"dm.get", "other", fmt.Sprintf("o%d", i%7)}), Flag: true})
	}
	p.Phases = []plan.Phase{{Name: "fuzz", Clients: []plan.Script{sc, other}}}
	return p
}

func oracleC16(p *plan.Plan, his []plan.Rec, res *plan.Result) {
	errReplies, okReplies := 0, 0
	dec := func(a []string) []string {
		out := make([]string, len(a))
		for i, s := range a {
			b, _ := base64.StdEncoding.DecodeString(s)
			out[i] = string(b)
		}
		return out
	}
	for i := range his {
		r := &his[i]
		switch r.Op.K {
		case "fz.cmd":
			v := dec(r.Op.Args)
			cmd := strings.ToLower(v[0])
			switch {
			case r.Err == "":
				if strings.HasPrefix(r.Info, "-") {
					errReplies++
				} else {
					okReplies++
				}
				if r.Client == 2 && strings.HasPrefix(r.Info, "-") {
					viol(res, "bystander-connection-disturbed", cmd, "the ordinary traffic of the second connection got %q for %q", r.Info, v)
				}
			case r.Err == "timeout" && cmd == "dm.lock":
				// waiting for a lock until its deadline
			case r.Err == "timeout":
				viol(res, "request-not-answered", cmd, "%q got no reply within 5 simulated seconds (received %q)", v, r.Info)
			case r.Err == "closed" && (cmd == "subscribe" || cmd == "psubscribe"):
			case r.Err == "closed":
				viol(res, "connection-closed-on-request", cmd, "the member closed the connection on the well-formed request %q (received %q)", v, r.Info)
			default:
				viol(res, "connection-failed", cmd, "%q: %s", v, r.Err)
			}
		case "fz.fresh":
			if r.Err != "" {
				viol(res, "member-not-serving", r.Err, "a fresh connection was not served: %s", r.Err)
			}
		}
	}
	res.Nontrivial = errReplies > 0 && okReplies > 0
	res.NTKey = fmt.Sprint(p.Params["batch"])
	res.Counters["oracle.error_replies"] = int64(errReplies)
	res.Counters["oracle.ok_replies"] = int64(okReplies)
}
