package props

import (
	"fmt"
	"math"

	"verif/plan"
)

func init() {
	register(&Meta{ID: "C08", Level: "exploration", QuickSec: 45, ThoroSec: 900, WallMaxS: 120,
		Rule: "each run = seeded plan: 1-3 members, R 1-2, 2-6 lockers bound to entry points (embedded owner/non-owner, cluster client, raw RESP) competing for 1-2 lock keys with Lock / LockWithTimeout whose timeout, deadline and hold time are drawn around each other, Lease extensions, Unlock, unlock/lease with stale tokens (after the lock changed hands) and forged tokens (a foreign full-length token, no bytes at all, one byte more, half of the holder's own token), and minutes-long clock jumps while an untimed lock is held; the oracle works on the simulated clock: mutual exclusion of certain-hold intervals, failing Lock not before its deadline, stale/forged tokens rejected and the holder unaffected, timed locks not released early and acquirable within timeout + retry period + 4 x max latency; non-trivial = at least one Lock had to wait or failed while another client held the key; distinct = schedule fingerprints",
		Assume: []string{"membership stable", "lock deadlines stay below the member-to-member client read timeout (3 s): a forwarded DM.LOCK that waits longer than that is answered with an i/o timeout by the forwarding member (observed, noted in DESIGN.md)", "hold intervals are reasoned about with the invoke/return uncertainty of every operation; expiry is millisecond-granular"},
	}, genC08, oracleC08)
}

func genC08(seed uint64, tier string) *plan.Plan {
	r := NewRng(seed, "C08")
	p := base("C08", seed, tier, r)
	n := r.Range(1, 3)
	p.Cluster.Members = n
	p.Cluster.ReplicaCount = r.Range(1, min(2, n))
	p.Cluster.Partitions = partitionsFor(r, n)
	p.Net.MinLatUs, p.Net.MaxLatUs = 5, int64(Pick(r, 20, 200, 1000))
	yields(p, r)
	p.Yield.MaxUs = min(p.Yield.MaxUs, 500)
	nkeys := r.Range(1, 2)
	ncl := r.Range(2, 6)
	ph := plan.Phase{Name: "locks", Yields: true}
	for c := 1; c <= ncl; c++ {
		sc := entry(r, c, n)
		rounds := r.Range(1, 4)
		for i := 0; i < rounds; i++ {
			key := fmt.Sprintf("L%d", r.Intn(nkeys))
			lock := plan.Op{K: "lock", Key: key, D: int64(Pick(r, 0, 0, 500, 5000, 40000)),
				Dur: int64(Pick(r, 0, 0, 30, 100, 400)), Dur2: int64(Pick(r, 5, 40, 150, 600, 1500))}
			li := len(sc.Ops)
			sc.Ops = append(sc.Ops, lock)
			hold := int64(Pick(r, 1, 10, 60, 150, 500))
			if lock.Dur == 0 && r.Bool(150) {
				hold = 300 * 1000 // minutes: an untimed lock is never released spontaneously
			}
			sc.Ops = append(sc.Ops, plan.Op{K: "ctl.sleep", Dur: hold})
			if r.Bool(300) {
				sc.Ops = append(sc.Ops, plan.Op{K: "lease", Key: key, Ref: li, Dur: int64(Pick(r, 20, 100, 500))})
				sc.Ops = append(sc.Ops, plan.Op{K: "ctl.sleep", Dur: int64(Pick(r, 1, 30, 200))})
			}
			if sc.Kind == "raw" && r.Bool(300) {
				// half of the holder's own token while it holds the lock: never valid, the lock stays
				sc.Ops = append(sc.Ops, plan.Op{K: Pick(r, "unlock", "lease"), Key: key, Ref: li, Dur: 200, Tag: "prefix"})
			}
			if r.Bool(850) {
				sc.Ops = append(sc.Ops, plan.Op{K: "unlock", Key: key, Ref: li})
			}
			if r.Bool(250) {
				// try the old token again later: it must be rejected whoever holds the lock now
				sc.Ops = append(sc.Ops, plan.Op{K: "ctl.sleep", Dur: int64(Pick(r, 5, 100, 600))})
				sc.Ops = append(sc.Ops, plan.Op{K: Pick(r, "unlock", "lease"), Key: key, Ref: li, Dur: 200, Tag: "again"})
			}
		}
		ph.Clients = append(ph.Clients, sc)
	}
	if r.Bool(500) {
		// a raw connection presenting forged tokens
		sc := plan.Script{ID: 40, Kind: "raw", M: r.Intn(n)}
		for i, k := 0, r.Range(1, 4); i < k; i++ {
			sc.Ops = append(sc.Ops, plan.Op{K: Pick(r, "unlock", "lease"), Key: fmt.Sprintf("L%d", r.Intn(nkeys)), Ref: -1, Dur: 300, D: int64(Pick(r, 1000, 20000, 100000))})
		}
		// the same attempts with tokens of another length: no bytes at all, one byte more
		for i := range sc.Ops {
			sc.Ops[i].Tag = Pick(r, "", "empty", "empty", "longer")
		}
		ph.Clients = append(ph.Clients, sc)
	}
	p.Phases = []plan.Phase{ph}
	return p
}

type hold struct {
	lock        *plan.Rec
	certainFrom int64 // ns
	certainTo   int64
	possFrom    int64
	possTo      int64
	timed       bool
}

func oracleC08(p *plan.Plan, his []plan.Rec, res *plan.Result) {
	recs := sortRecs(his)
	const ms = int64(1e6)
	inf := int64(math.MaxInt64 / 4)
	maxLat := p.Net.MaxLatUs*1000 + p.Yield.MaxUs*1000*4
	byKey := map[string][]*hold{}
	holds := map[[2]int]*hold{} // (client, lock op idx)
	indet := map[string]bool{}
	for i := range recs {
		r := &recs[i]
		if r.Op.K != "lock" {
			continue
		}
		switch {
		case r.Err == "":
			h := &hold{lock: r, certainFrom: r.TRet, possFrom: r.TInv, certainTo: inf, possTo: inf}
			if r.Op.Dur > 0 {
				h.timed = true
				// the timeout counts from the acquisition: the successful attempt of a Lock that had to
				// wait was made at most one round trip (plus pauses) before it returned
				from := r.TInv
				if t := r.TRet - 2*maxLat; t > from {
					from = t
				}
				h.certainTo = from + r.Op.Dur*ms - ms
				h.possTo = r.TRet + r.Op.Dur*ms
			}
			holds[[2]int{r.Client, r.Idx}] = h
			byKey[r.Op.Key] = append(byKey[r.Op.Key], h)
		case r.Err == plan.ELockNotAcq:
			if r.TRet-r.TInv < r.Op.Dur2*ms {
				viol(res, "lock-failed-before-deadline", r.Op.Key, "%s returned lock-not-acquired after %.3f ms, deadline %d ms", descRecT(r), float64(r.TRet-r.TInv)/1e6, r.Op.Dur2)
			}
		default:
			indet[r.Op.Key] = true
			viol(res, "lock-unexpected-error", r.Op.Key+"/"+r.Err, "%s", descRecT(r))
		}
	}
	// leases and unlocks by the holder's own token, in time order
	for i := range recs {
		r := &recs[i]
		if (r.Op.K != "unlock" && r.Op.K != "lease") || r.Err == "skipped" {
			continue
		}
		if r.Op.Ref < 0 || r.Op.Tag == "prefix" {
			if r.Err != plan.ENoSuchLock {
				viol(res, "forged-token-accepted", r.Op.Key, "%s with a forged token returned %q, want no-such-lock", descRecT(r), r.Err)
			}
			continue
		}
		h := holds[[2]int{r.Client, r.Op.Ref}]
		if h == nil {
			continue
		}
		switch {
		case r.TInv >= h.possTo && h.possTo < inf:
			// the token is certainly stale
			if r.Err != plan.ENoSuchLock {
				viol(res, "stale-token-accepted", r.Op.Key, "%s: the lock taken by %s had certainly ended at %.3f ms, yet %s returned %q", descRecT(r), descRecT(h.lock), float64(h.possTo)/1e6, r.Op.K, r.Err)
			}
		case r.TRet <= h.certainTo:
			// the caller certainly holds the lock
			if r.Err != "" {
				viol(res, "holder-lost-lock", r.Op.Key, "%s failed with %q although its lock (%s) is certainly held until %.3f ms", descRecT(r), r.Err, descRecT(h.lock), float64(h.certainTo)/1e6)
			}
		}
		if r.Err == "" {
			if r.Op.K == "unlock" {
				if r.TInv < h.certainTo {
					h.certainTo = r.TInv
				}
				if r.TRet < h.possTo {
					h.possTo = r.TRet
				}
			} else {
				h.timed = true
				// the timeout counts from the acquisition: the successful attempt of a Lock that had to
				// wait was made at most one round trip (plus pauses) before it returned
				from := r.TInv
				if t := r.TRet - 2*maxLat; t > from {
					from = t
				}
				h.certainTo = from + r.Op.Dur*ms - ms
				h.possTo = r.TRet + r.Op.Dur*ms
			}
		}
	}
	// mutual exclusion
	for key, hs := range byKey {
		for _, a := range hs {
			for _, b := range hs {
				if a == b {
					continue
				}
				if b.lock.TInv >= a.certainFrom && b.lock.TRet < a.certainTo {
					viol(res, "mutual-exclusion", key, "%s acquired the lock while %s certainly held it (until %.3f ms)", descRecT(b.lock), descRecT(a.lock), float64(a.certainTo)/1e6)
				}
			}
		}
	}
	// a waiting locker acquires a lock that became free
	slack := 10*ms + 4*maxLat + 2*ms
	for i := range recs {
		r := &recs[i]
		if r.Op.K != "lock" {
			continue
		}
		waited := r.TRet-r.TInv > 9*ms
		if waited || r.Err == plan.ELockNotAcq {
			res.Nontrivial = true
		}
		if r.Err != plan.ELockNotAcq || indet[r.Op.Key] {
			continue
		}
		// possible-hold intervals of the others, clipped to the waiting window
		w0, w1 := r.TInv, r.TInv+r.Op.Dur2*ms
		free := w0
		covered := false
		hs := byKey[r.Op.Key]
		// sweep: advance `free` over intervals that may hold the lock
		for changed := true; changed; {
			changed = false
			for _, h := range hs {
				if h.possFrom <= free+slack && h.possTo > free {
					free = h.possTo
					changed = true
				}
			}
		}
		if free >= w1-slack {
			covered = true
		}
		if !covered {
			viol(res, "lock-not-acquired-although-free", r.Op.Key, "%s failed although the key was certainly free from %.3f ms for more than the retry period + latency (%.3f ms) within its deadline window", descRecT(r), float64(free)/1e6, float64(slack)/1e6)
		}
	}
	res.NTKey = fpKey(res)
}
