package props

import (
	"fmt"
	"sort"
	"strings"

	"verif/plan"
)

func init() {
	register(&Meta{ID: "C02", Level: "exploration", QuickSec: 60, ThoroSec: 1500, WallMaxS: 240,
		Rule: "each run = seeded plan: N 3-5 members, R 2-3, read-repair on/off; 8-30 keys each written by exactly one writer (Put/Delete chains through random entry points) plus readers; a controller stops up to R-1 members - primary owner or backup of a hot key, the coordinator or a bystander - gracefully or abruptly (connection reset or silence), while idle, between operations or at an instant when a RESP segment to/from the victim is in flight; after the bounded re-stabilisation every key is read through every survivor and a fault-free Put/Get/Delete phase runs; non-trivial = a stop happened while writes were being issued (a victim was primary or backup of an asserted key or had traffic in flight); distinct = (failure kinds, victim roles, trigger) signatures x schedule fingerprints",
		Assume: []string{"a write that ended in an error is indeterminate: it may or may not have taken effect, even after a later acknowledged write of the same writer", "re-stabilisation bound 60 s + 13 s per partition of simulated time; exceeding it is reported as not-stabilised and no value assertion is made"},
	}, genC02, oracleC02)
}

func genC02(seed uint64, tier string) *plan.Plan {
	r := NewRng(seed, "C02")
	p := base("C02", seed, tier, r)
	R := r.Range(2, 3)
	n := r.Range(3, 5)
	p.Cluster.Members = n
	p.Cluster.ReplicaCount = R
	p.Cluster.Partitions = partitionsFor(r, n)
	if p.Cluster.Partitions < 7 {
		p.Cluster.Partitions = 7
	}
	p.Cluster.TableSize = Pick(r, 512, 4096, 1<<20)
	p.Cluster.ReadRepair = r.Bool(200)
	p.Cluster.RoutingPushMs = Pick(r, 500, 2000)
	p.Cluster.BalancerMs = Pick(r, 200, 1000)
	p.Cluster.ClientReadTimeoutMs = Pick(r, 300, 1000, 3000)
	p.Net.PktDropPermille = uint64(Pick(r, 0, 30))
	yields(p, r)
	nkeys := r.Range(8, 30)
	nwriters := r.Range(2, 4)
	bound := int64(60000 + 13000*p.Cluster.Partitions)
	quiet := int64(2*p.Cluster.RoutingPushMs + 3*p.Cluster.BalancerMs + 500)

	// phase 0: load
	load := plan.Phase{Name: "load"}
	vn := 0
	keysOf := make([][]string, nwriters)
	for k := 0; k < nkeys; k++ {
		w := k % nwriters
		keysOf[w] = append(keysOf[w], fmt.Sprintf("k%d", k))
	}
	for w := 0; w < nwriters; w++ {
		sc := plan.Script{ID: w + 1, Kind: "ctl"}
		for _, k := range keysOf[w] {
			if r.Bool(850) {
				vn++
				sc.Ops = append(sc.Ops, plan.Op{K: "put", Key: k, Val: fmt.Sprintf("v%d", vn), Tag: Pick(r, "emb", "cc", "raw"), M: r.Intn(n)})
			}
		}
		load.Clients = append(load.Clients, sc)
	}
	// phase 1: workload with failures
	work := plan.Phase{Name: "work", Yields: true}
	nfail := r.Range(1, R-1)
	// victims are chosen at run time by role; writers and readers must not enter through members that
	// may stop: use cluster clients and raw/embedded entries on members reserved as survivors (the last ones)
	// member n-1 is never chosen as a victim (the executor resolves roles among 0..n-2), so embedded
	// and raw entries use it: an embedded client of a stopped member must never be used
	safe := func() int { return n - 1 }
	for w := 0; w < nwriters; w++ {
		sc := plan.Script{ID: w + 1, Kind: "ctl"}
		nops := r.Range(6, 30)
		for i := 0; i < nops; i++ {
			k := keysOf[w][r.Intn(len(keysOf[w]))]
			op := plan.Op{Key: k, D: int64(Pick(r, 0, 100, 2000, 50000, 400000)), Tag: Pick(r, "emb", "cc", "cc", "raw"), M: safe()}
			if r.Bool(200) {
				op.K = "del"
			} else {
				vn++
				op.K, op.Val = "put", fmt.Sprintf("v%d", vn)
			}
			sc.Ops = append(sc.Ops, op)
		}
		work.Clients = append(work.Clients, sc)
	}
	for rd := 0; rd < r.Range(0, 2); rd++ {
		sc := plan.Script{ID: 20 + rd, Kind: "ctl"}
		for i, nops := 0, r.Range(5, 25); i < nops; i++ {
			sc.Ops = append(sc.Ops, plan.Op{K: "get", Key: fmt.Sprintf("k%d", r.Intn(nkeys)), D: int64(Pick(r, 0, 500, 20000, 300000)), Tag: Pick(r, "emb", "cc", "raw"), M: safe()})
		}
		work.Clients = append(work.Clients, sc)
	}
	// Sweeper (a third of the runs): the network is slow, so re-replication after the stop (backup
	// fragments travelling to their new owners) takes tenths of a second, and one client keeps
	// deleting its own keys one by one all the while: a Delete acknowledged while the key's fragment
	// is in flight must still read not-found once the cluster has settled.
	nsweep := 0
	if r.Bool(330) {
		p.Net.MinLatUs, p.Net.MaxLatUs = 3000, int64(Pick(r, 15000, 40000))
		if p.Cluster.ClientReadTimeoutMs < 1000 {
			p.Cluster.ClientReadTimeoutMs = 1000
		}
		p.Yield = plan.YieldSpec{}
		// few partitions: a Delete meets the fragment that is in flight with probability 1/partitions
		p.Cluster.Partitions = uint64(max(n, 7))
		per := r.Range(100, 200)
		gap := int64(Pick(r, 5000, 15000, 30000))
		for s := 0; s < 4; s++ {
			ls := plan.Script{ID: 25 + s, Kind: "ctl"}
			sw := plan.Script{ID: 25 + s, Kind: "ctl"}
			for i := 0; i < per; i++ {
				k := fmt.Sprintf("d%d", nsweep)
				nsweep++
				ls.Ops = append(ls.Ops, plan.Op{K: "put", Key: k, Val: "d", Tag: "cc"})
				sw.Ops = append(sw.Ops, plan.Op{K: "del", Key: k, Tag: Pick(r, "cc", "cc", "emb"), M: safe(), D: gap})
			}
			load.Clients = append(load.Clients, ls)
			work.Clients = append(work.Clients, sw)
		}
	}
	ctl := plan.Script{ID: 30, Kind: "ctl"}
	sig := ""
	for f := 0; f < nfail; f++ {
		ctl.Ops = append(ctl.Ops, plan.Op{K: "ctl.sleep", Dur: int64(Pick(r, 0, 1, 20, 300, 3000))})
		role := Pick(r, "owner", "backup", "coord", "any")
		hot := fmt.Sprintf("k%d", r.Intn(nkeys))
		kind := Pick(r, "leave", "crash-reset", "crash-silent", "inflight-reset", "inflight-silent")
		op := plan.Op{Key: hot, Tag: role, Count: nfail}
		switch kind {
		case "leave":
			op.K = "ctl.leave"
		case "crash-reset":
			op.K, op.Flag = "ctl.crash", true
		case "crash-silent":
			op.K = "ctl.crash"
		case "inflight-reset":
			op.K, op.Flag, op.Dur = "ctl.crash_inflight", true, 200
		case "inflight-silent":
			op.K, op.Dur = "ctl.crash_inflight", 200
		}
		sig += role[:1] + ":" + kind + ","
		ctl.Ops = append(ctl.Ops, op)
		if f+1 < nfail && r.Bool(500) {
			// let the cluster re-stabilise (and re-replicate) before the next stop
			ctl.Ops = append(ctl.Ops, plan.Op{K: "ctl.wait_stable", Dur: bound + 3*quiet, Dur2: quiet})
			sig += "settle,"
		}
	}
	work.Clients = append(work.Clients, ctl)
	// phase 2: re-stabilise
	st := plan.Phase{Name: "stabilise", Clients: []plan.Script{{ID: 30, Kind: "ctl", Ops: []plan.Op{
		{K: "ctl.wait_stable", Dur: bound + 3*quiet, Dur2: quiet, Tag: "final"},
		{K: "ctl.snapshot"},
	}}}}
	// phase 3: verify from every survivor (resolved at run time: Tag "each")
	ver := plan.Phase{Name: "verify"}
	vs := plan.Script{ID: 31, Kind: "ctl"}
	for k := 0; k < nkeys; k++ {
		vs.Ops = append(vs.Ops, plan.Op{K: "ctl.get_all", Key: fmt.Sprintf("k%d", k)})
	}
	for k := 0; k < nsweep; k++ {
		vs.Ops = append(vs.Ops, plan.Op{K: "ctl.get_all", Key: fmt.Sprintf("d%d", k)})
	}
	ver.Clients = []plan.Script{vs}
	// phase 4: healthy behaviour afterwards
	post := plan.Phase{Name: "post"}
	ps := plan.Script{ID: 32, Kind: "ctl"}
	for i, np := 0, r.Range(2, 6); i < np; i++ {
		k := fmt.Sprintf("k%d", r.Intn(nkeys))
		vn++
		v := fmt.Sprintf("p%d", vn)
		ps.Ops = append(ps.Ops,
			plan.Op{K: "put", Key: k, Val: v, Tag: "emb", M: -1 - r.Intn(8)},
			plan.Op{K: "get", Key: k, Tag: "emb", M: -1 - r.Intn(8)},
			plan.Op{K: "del", Key: k, Tag: "emb", M: -1 - r.Intn(8)},
			plan.Op{K: "get", Key: k, Tag: "emb", M: -1 - r.Intn(8)})
		if r.Bool(500) {
			vn++
			ps.Ops = append(ps.Ops, plan.Op{K: "put", Key: k, Val: fmt.Sprintf("p%d", vn), Tag: "cc"}, plan.Op{K: "get", Key: k, Tag: "emb", M: -1 - r.Intn(8)})
		}
	}
	post.Clients = []plan.Script{ps}
	p.Phases = []plan.Phase{load, work, st, ver, post}
	p.Variant = fmt.Sprintf("R%d/N%d/%s", R, n, sig)
	if nsweep > 0 {
		p.Variant += "sweep"
	}
	return p
}

// allowedFinal computes, per key, the value set the survivors may hold: the last
// acknowledged write, plus every write whose outcome is unknown. "" = absent.
type allowed struct {
	vals    map[string]bool
	lastAck string
	hasAck  bool
}

func finalAllowed(his []plan.Rec, phases map[int]bool) map[string]*allowed {
	out := map[string]*allowed{}
	recs := sortRecs(his)
	for i := range recs {
		r := &recs[i]
		if !phases[r.Phase] || (r.Op.K != "put" && r.Op.K != "del") {
			continue
		}
		a := out[r.Op.Key]
		if a == nil {
			// before any write the key is absent, as if a delete had been acknowledged
			a = &allowed{vals: map[string]bool{"": true}, lastAck: "", hasAck: true}
			out[r.Op.Key] = a
		}
		v := "=" + r.Op.Val
		if r.Op.K == "del" {
			v = ""
		}
		switch {
		case r.Err == "":
			// a new acknowledged write supersedes older acknowledged values, not unknown ones
			for k := range a.vals {
				if k == a.lastAck && a.hasAck && !a.vals["?"+k] {
					delete(a.vals, k)
				}
			}
			a.lastAck, a.hasAck = v, true
			a.vals[v] = true
		default:
			a.vals[v] = true // outcome unknown
			a.vals["?"+v] = true
		}
	}
	return out
}

func oracleC02(p *plan.Plan, his []plan.Rec, res *plan.Result) {
	stable := false
	interesting := false
	for i := range his {
		r := &his[i]
		switch r.Op.K {
		case "ctl.wait_stable":
			if r.Op.Tag == "final" {
				if r.Err != "" {
					viol(res, "not-stabilised", p.Variant+stormTag(r.Err), "%s", r.Err)
				} else {
					stable = true
				}
			}
		case "ctl.leave", "ctl.crash", "ctl.crash_inflight":
			if strings.Contains(r.Info, "inflight") || strings.Contains(r.Info, "role=owner") || strings.Contains(r.Info, "role=backup") {
				interesting = true
			}
			if strings.HasPrefix(r.Err, "other:") {
				res.Status, res.Reason = "inconclusive", r.Err
			}
		}
	}
	res.Nontrivial = interesting
	res.NTKey = p.Variant + "/" + fpKey(res)
	if !stable {
		return
	}
	al := finalAllowed(his, map[int]bool{0: true, 1: true})
	tag := cfgTag(p)
	// A second member that stops before the cluster has re-stabilised after the first stop hits the
	// window in which rebalancing has concentrated the copies of a partition (known finding).
	nstops, settled := 0, true
	firstStop := int64(-1)
	retryAfter := int64(3000) * 1e6 // go-redis' default read time-out of the cluster client
	if t := int64(p.Cluster.ClientReadTimeoutMs) * 1e6; t > 0 && t < retryAfter {
		retryAfter = t
	}
	for _, r := range sortRecs(his) {
		switch r.Op.K {
		case "ctl.leave", "ctl.crash", "ctl.crash_inflight":
			if r.Err == "" {
				if firstStop < 0 {
					firstStop = r.TInv
				}
				nstops++
				if nstops >= 2 && !settled {
					tag += " unsettled-double-failure"
				}
				settled = false
			}
		case "ctl.wait_stable":
			if r.Err == "" {
				settled = true
			}
		}
	}
	for i := range his {
		r := &his[i]
		if r.Op.K != "ctl.get_all" {
			continue
		}
		a := al[r.Op.Key]
		if a == nil {
			a = &allowed{vals: map[string]bool{"": true}}
		}
		seen := map[string]bool{}
		for _, c := range r.Copies {
			who := fmt.Sprintf("m%d", c.Member)
			if c.Err != "" {
				viol(res, "unreadable", r.Op.Key+tag, "Get(%s) through survivor %s after re-stabilisation failed: %s; allowed %v", r.Op.Key, who, c.Err, keysOf(a.vals))
				continue
			}
			v := ""
			if c.Found {
				v = "=" + c.Val
			}
			seen[v] = true
			if !a.vals[v] {
				class := "stale-or-wrong-value"
				if v == "" {
					class = "lost-write"
				} else if a.hasAck && a.lastAck == "" {
					class = "delete-undone"
				}
				extra := ""
				if class == "delete-undone" {
					// the routing table changed on some member while the acknowledged Delete was running: it
					// used owner lists that were replaced under it (known finding)
					var last *plan.Rec
					for j := range his {
						d := &his[j]
						if d.Op.K == "del" && d.Op.Key == r.Op.Key && d.Err == "" && d.Phase <= 1 && (last == nil || d.TRet > last.TRet) {
							last = d
						}
					}
					if last != nil && last.RtInv != last.RtRet {
						extra = " routing-changed-during-delete"
					}
				}
				if w := writerOf(his, r.Op.Key, v); w != nil && extra == "" {
					switch {
					case class == "delete-undone" && firstStop >= 0 && w.TInv >= firstStop:
						// the value that came back was itself written while the routing tables were changing
						// (known finding, same root cause as C03 "written-during-handover")
						extra = " written-during-handover"
					case class == "stale-or-wrong-value" && w.TRet-w.TInv >= retryAfter:
						// the older value's own Put ran into the client read time-out and was re-sent by
						// the client library: its first attempt may complete after a later Put (known finding)
						extra = " retried-put-applied-late"
					}
				}
				viol(res, class, r.Op.Key+tag+extra, "Get(%s) through survivor %s returned %q; allowed after the acknowledged history: %v; writes: %s", r.Op.Key, who, v, keysOf(a.vals), writesOf(his, r.Op.Key))
			}
		}
		if len(seen) > 1 {
			viol(res, "survivors-disagree", r.Op.Key+tag, "survivors return different results for %s: %v; writes: %s", r.Op.Key, keysOf(seen), writesOf(his, r.Op.Key))
		}
	}
	// post-failure phase behaves like a healthy cluster (sequential)
	cur := map[string]string{}
	for i := range his {
		r := &his[i]
		if r.Phase != 4 {
			continue
		}
		switch r.Op.K {
		case "put":
			if r.Err != "" {
				viol(res, "post-failure-op-failed", "put"+tag, "%s", descRecT(r))
			} else {
				cur[r.Op.Key] = "=" + r.Op.Val
			}
		case "del":
			if r.Err != "" {
				viol(res, "post-failure-op-failed", "del"+tag, "%s", descRecT(r))
			} else {
				cur[r.Op.Key] = ""
			}
		case "get":
			want, ok := cur[r.Op.Key]
			if !ok {
				continue
			}
			got := ""
			if r.Err == "" && r.Has {
				got = "=" + r.Val
			} else if r.Err != plan.ENotFound {
				viol(res, "post-failure-op-failed", "get"+tag, "%s", descRecT(r))
				continue
			}
			if got != want {
				viol(res, "post-failure-wrong-read", r.Op.Key+tag, "%s, want %q", descRecT(r), want)
			}
		}
	}
}

func keysOf(m map[string]bool) []string {
	var ks []string
	for k := range m {
		if !strings.HasPrefix(k, "?") {
			ks = append(ks, k)
		}
	}
	sort.Strings(ks)
	return ks
}

// writerOf returns the last write of the phases before verification that wrote value v ("=<val>") to key.
func writerOf(his []plan.Rec, key, v string) *plan.Rec {
	var w *plan.Rec
	for i := range his {
		r := &his[i]
		if r.Op.K == "put" && r.Op.Key == key && "="+r.Op.Val == v && r.Phase <= 1 {
			w = r
		}
	}
	return w
}

func writesOf(his []plan.Rec, key string) string {
	var sb strings.Builder
	recs := sortRecs(his)
	n := 0
	for i := range recs {
		r := &recs[i]
		if r.Op.Key == key && (r.Op.K == "put" || r.Op.K == "del") {
			n++
			if n > 12 {
				sb.WriteString("...")
				break
			}
			sb.WriteString(descRecT(r) + "; ")
		}
	}
	return sb.String()
}
