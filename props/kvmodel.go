package props

import (
	"fmt"
	"math"
	"strconv"
	"time"

	"github.com/anishathalye/porcupine"

	"verif/plan"
)

// kvState is the sequential specification's state of one key (no expiry).
type kvState struct {
	P bool
	V string
}

func absent() kvState { return kvState{} }

func num(s kvState) (int64, bool) {
	if !s.P {
		return 0, true
	}
	v, err := strconv.ParseInt(s.V, 10, 64)
	return v, err == nil
}

func fnum(s kvState) (float64, bool) {
	if !s.P {
		return 0, true
	}
	v, err := strconv.ParseFloat(s.V, 64)
	return v, err == nil
}

// kvStep returns the possible successor states of applying the recorded op
// with its recorded result to state s; empty = impossible.
func kvStep(s kvState, r *plan.Rec) []interface{} {
	op := &r.Op
	one := func(x kvState) []interface{} { return []interface{}{x} }
	none := []interface{}(nil)
	if isIndeterminate(r.Err) || r.Err == "skipped" {
		// may or may not have taken effect
		out := []interface{}{s}
		switch op.K {
		case "put":
			if (op.NX && s.P) || (op.XX && !s.P) {
				return out
			}
			return append(out, kvState{true, op.Val})
		case "getput":
			return append(out, kvState{true, op.Val})
		case "del":
			return append(out, absent())
		case "incr", "decr":
			if v, ok := num(s); ok {
				d := op.Delta
				if op.K == "decr" {
					d = -d
				}
				return append(out, kvState{true, strconv.FormatInt(v+d, 10)})
			}
		case "incrf":
			if v, ok := fnum(s); ok {
				return append(out, kvState{true, strconv.FormatFloat(v+op.FDelta, 'f', -1, 64)})
			}
		}
		return out
	}
	switch op.K {
	case "put":
		switch {
		case op.NX:
			if r.Err == "" && !s.P {
				return one(kvState{true, op.Val})
			}
			if r.Err == plan.EKeyFound && s.P {
				return one(s)
			}
			return none
		case op.XX:
			if r.Err == "" && s.P {
				return one(kvState{true, op.Val})
			}
			if r.Err == plan.ENotFound && !s.P {
				return one(s)
			}
			return none
		default:
			if r.Err == "" {
				return one(kvState{true, op.Val})
			}
			return none
		}
	case "get":
		if r.Err == "" && s.P && r.Val == s.V {
			return one(s)
		}
		if r.Err == plan.ENotFound && !s.P {
			return one(s)
		}
		return none
	case "del":
		if r.Err == "" {
			return one(absent())
		}
		return none
	case "getput":
		if r.Err != "" {
			return none
		}
		if r.Has != s.P || (s.P && r.Val != s.V) {
			return none
		}
		return one(kvState{true, op.Val})
	case "incr", "decr":
		if r.Err != "" {
			return none
		}
		v, ok := num(s)
		if !ok {
			return none
		}
		d := op.Delta
		if op.K == "decr" {
			d = -d
		}
		if r.Int != v+d {
			return none
		}
		return one(kvState{true, strconv.FormatInt(v+d, 10)})
	case "incrf":
		if r.Err != "" {
			return none
		}
		v, ok := fnum(s)
		if !ok {
			return none
		}
		if math.Float64bits(r.Float) != math.Float64bits(v+op.FDelta) {
			return none
		}
		return one(kvState{true, strconv.FormatFloat(v+op.FDelta, 'f', -1, 64)})
	}
	return one(s)
}

var kvModel = (&porcupine.NondeterministicModel{
	Init: func() []interface{} { return []interface{}{absent()} },
	Step: func(state interface{}, input interface{}, output interface{}) []interface{} {
		return kvStep(state.(kvState), input.(*plan.Rec))
	},
	Equal: func(a, b interface{}) bool { return a.(kvState) == b.(kvState) },
	DescribeOperation: func(in interface{}, out interface{}) string {
		r := in.(*plan.Rec)
		return descRec(r)
	},
}).ToModel()

func descRec(r *plan.Rec) string {
	o := r.Op
	s := fmt.Sprintf("c%d#%d %s(%s", r.Client, r.Idx, o.K, o.Key)
	if o.Val != "" {
		s += "," + o.Val
	}
	if o.NX {
		s += ",NX"
	}
	if o.XX {
		s += ",XX"
	}
	if o.Delta != 0 {
		s += fmt.Sprintf(",%d", o.Delta)
	}
	s += ")"
	switch {
	case r.Err != "":
		s += " -> " + r.Err
	case o.K == "get" || o.K == "getput":
		if r.Has {
			s += " -> " + strconv.Quote(r.Val)
		} else {
			s += " -> none"
		}
	case o.K == "incr" || o.K == "decr":
		s += fmt.Sprintf(" -> %d", r.Int)
	default:
		s += " -> ok"
	}
	return s + fmt.Sprintf(" [%d,%d]", r.Inv, r.Ret)
}

// linCheck checks the single-key ops of his (all ops must carry Op.Key) for
// linearizability per key. It returns per-key verdicts.
func linCheck(recs []*plan.Rec, timeout time.Duration) (illegal []string, unknown []string) {
	byKey := map[string][]porcupine.Operation{}
	var keys []string
	for _, r := range recs {
		k := r.Op.DM + "/" + r.Op.Key
		if _, ok := byKey[k]; !ok {
			keys = append(keys, k)
		}
		ret := int64(r.Ret)
		if isIndeterminate(r.Err) {
			ret = math.MaxInt64 - 1
		}
		byKey[k] = append(byKey[k], porcupine.Operation{ClientId: r.Client, Input: r, Call: int64(r.Inv), Output: r, Return: ret})
	}
	for _, k := range keys {
		ops := byKey[k]
		// porcupine wants client ids that are sequential per client; indeterminate ops overlap later
		// ops of the same client, so give each such op a client id of its own.
		next := 1000
		for i := range ops {
			if ops[i].Return == math.MaxInt64-1 {
				ops[i].ClientId = next
				next++
			}
		}
		switch porcupine.CheckOperationsTimeout(kvModel, ops, timeout) {
		case porcupine.Illegal:
			illegal = append(illegal, k)
		case porcupine.Unknown:
			unknown = append(unknown, k)
		}
	}
	return
}

func keyHistory(recs []*plan.Rec, key string) string {
	s := ""
	for _, r := range recs {
		if r.Op.DM+"/"+r.Op.Key == key {
			s += descRec(r) + "; "
		}
	}
	return s
}

var _ = plan.ENotFound
