package props

import (
	"fmt"
	"sort"
	"strconv"

	"verif/plan"
)

// sState is one possible state of a key in the sequential reference model
// with expiry (milliseconds of simulated wall time; 0 = no expiry).
type sState struct {
	P   bool
	V   string
	Exp int64
}

// seqKey tracks the set of states a key may be in. Uncertainty comes only from
// the unknown instant, within [invoke, return], at which an operation took
// effect relative to a millisecond boundary.
type seqKey struct {
	states []sState
}

type seqModel struct {
	keys       map[string]*seqKey
	defaultTTL map[string]int64 // dmap name -> default ttl ms
	epochMs    int64            // wall-clock ms at simulated time 0
	overflow   bool             // the candidate set had to be cut: later mismatches prove nothing
}

// The bubble clock starts at 2000-01-01T00:00:00Z.
const bubbleEpochMs = 946684800000

func newSeqModel(p *plan.Plan) *seqModel {
	m := &seqModel{keys: map[string]*seqKey{}, defaultTTL: map[string]int64{}, epochMs: bubbleEpochMs}
	m.defaultTTL[""] = int64(p.Cluster.TTLMs)
	for n, c := range p.Cluster.Custom {
		if c.TTLMs > 0 {
			m.defaultTTL[n] = int64(c.TTLMs)
		}
	}
	return m
}

func (m *seqModel) key(dmn, k string) *seqKey {
	id := dmn + "\x00" + k
	if m.keys[id] == nil {
		m.keys[id] = &seqKey{states: []sState{{}}}
	}
	return m.keys[id]
}

func (m *seqModel) dttl(dmn string) int64 {
	if v, ok := m.defaultTTL[dmn]; ok {
		return v
	}
	return m.defaultTTL[""]
}

func norm(s sState, t int64) sState {
	if s.P && s.Exp != 0 && t >= s.Exp {
		return sState{}
	}
	return s
}

func dedup(ss []sState) []sState {
	sort.Slice(ss, func(i, j int) bool {
		a, b := ss[i], ss[j]
		if a.P != b.P {
			return !a.P
		}
		if a.V != b.V {
			return a.V < b.V
		}
		return a.Exp < b.Exp
	})
	out := ss[:0]
	for i, s := range ss {
		if i == 0 || s != ss[i-1] {
			out = append(out, s)
		}
	}
	return out
}

// apply one op on one state at effect instant t (wall ms). It returns the
// successor states whose predicted observable result matches the record.
func (m *seqModel) applyAt(s sState, r *plan.Rec, t int64, span int64) []sState {
	op := &r.Op
	dmn := op.DM
	s = norm(s, t)
	vis := s.P
	newExp := func() int64 {
		switch {
		case op.EX > 0:
			return t + op.EX
		case op.PX > 0:
			return t + op.PX
		case op.EXAT > 0, op.PXAT > 0:
			return r.Int // absolute expiry (ms) recorded by the executor
		}
		if d := m.dttl(dmn); d > 0 {
			return t + d
		}
		return 0
	}
	one := func(x sState) []sState { return []sState{x} }
	// A relative ttl is turned into a deadline at an instant that is not earlier than the
	// visibility check of the same operation but may fall into a later millisecond of it.
	rel := func(v string, exp int64, relative bool) []sState {
		if !relative || exp == 0 {
			return one(sState{true, v, exp})
		}
		var out []sState
		for d := int64(0); d <= span; d++ { // span = milliseconds left until the op returned
			out = append(out, sState{true, v, exp + d})
		}
		return out
	}
	relTTL := op.EX > 0 || op.PX > 0 || (op.EXAT == 0 && op.PXAT == 0 && m.dttl(dmn) > 0)
	switch op.K {
	case "get":
		if vis {
			if r.Err == "" && r.Has && r.Val == s.V && r.TTL == s.Exp {
				return one(s)
			}
			return nil
		}
		if r.Err == plan.ENotFound {
			return one(s)
		}
		return nil
	case "put":
		if op.NX && vis {
			if r.Err == plan.EKeyFound {
				return one(s)
			}
			return nil
		}
		if op.XX && !vis {
			if r.Err == plan.ENotFound {
				return one(s)
			}
			return nil
		}
		if r.Err != "" {
			return nil
		}
		return rel(op.Val, newExp(), relTTL)
	case "getput":
		if r.Err != "" || r.Has != vis || (vis && r.Val != s.V) {
			return nil
		}
		return rel(op.Val, newExp(), relTTL)
	case "incr", "decr":
		if r.Err != "" {
			return nil
		}
		base := int64(0)
		if vis {
			v, err := strconv.ParseInt(s.V, 10, 64)
			if err != nil {
				return nil
			}
			base = v
		}
		d := op.Delta
		if op.K == "decr" {
			d = -d
		}
		if r.Int != base+d {
			return nil
		}
		nv := strconv.FormatInt(base+d, 10)
		if vis && s.Exp != 0 {
			// the remaining ttl is re-applied a little later: the expiry may move by the op's own duration
			var out []sState
			for e := s.Exp; e <= s.Exp+span; e++ {
				out = append(out, sState{true, nv, e})
			}
			return out
		}
		return rel(nv, newExp(), m.dttl(dmn) > 0)
	case "expire":
		if !vis {
			if r.Err == plan.ENotFound {
				return one(s)
			}
			return nil
		}
		if r.Err != "" {
			return nil
		}
		return rel(s.V, t+op.Dur, true)
	case "del":
		if r.Err != "" {
			return nil
		}
		return one(sState{})
	}
	return one(s)
}

// step applies the record to every key it names and reports the keys for which no
// state explains the observed result.
func (m *seqModel) step(r *plan.Rec) (bad []string) {
	op := &r.Op
	t0 := m.epochMs + r.TInv/1e6
	t1 := m.epochMs + r.TRet/1e6
	keys := op.Keys
	if len(keys) == 0 {
		keys = []string{op.Key}
	}
	for _, k := range keys {
		sk := m.key(op.DM, k)
		var next []sState
		for _, s := range sk.states {
			for t := t0; t <= t1; t++ {
				next = append(next, m.applyAt(s, r, t, t1-t)...)
			}
		}
		next = dedup(next)
		if len(next) == 0 {
			bad = append(bad, k)
			// resynchronise on what the implementation reported so that one divergence is reported once
			sk.states = m.resync(sk.states, r, t1)
			continue
		}
		// (one candidate per millisecond the operation was in flight: an operation that was paused
		// for 90 ms has 90 possible deadlines; cutting the set would turn a legal one into a mismatch)
		if len(next) > 20000 {
			m.overflow = true
			next = next[:20000]
		}
		sk.states = next
	}
	return bad
}

func (m *seqModel) resync(old []sState, r *plan.Rec, t int64) []sState {
	op := &r.Op
	switch op.K {
	case "get":
		if r.Err == "" && r.Has {
			return []sState{{true, r.Val, r.TTL}}
		}
		return []sState{{}}
	case "put", "getput":
		if r.Err == "" {
			var out []sState
			for _, e := range []int64{0, t + op.EX + op.PX, r.Int} {
				out = append(out, sState{true, op.Val, e})
			}
			return dedup(out)
		}
	case "incr", "decr":
		if r.Err == "" {
			var out []sState
			for _, s := range old {
				out = append(out, sState{true, strconv.FormatInt(r.Int, 10), s.Exp})
			}
			out = append(out, sState{true, strconv.FormatInt(r.Int, 10), 0})
			return dedup(out)
		}
	case "del":
		return []sState{{}}
	}
	return old
}

func (m *seqModel) describe(dmn, k string) string {
	sk := m.key(dmn, k)
	s := ""
	for i, st := range sk.states {
		if i > 3 {
			s += " ..."
			break
		}
		if !st.P {
			s += " absent"
		} else {
			s += fmt.Sprintf(" {%q exp=%d}", st.V, st.Exp)
		}
	}
	return s
}

func descRecT(r *plan.Rec) string {
	o := r.Op
	s := fmt.Sprintf("%s(%s", o.K, o.Key)
	if len(o.Keys) > 0 {
		s += fmt.Sprint(o.Keys)
	}
	if o.Val != "" {
		s += "," + o.Val
	}
	if o.NX {
		s += ",NX"
	}
	if o.XX {
		s += ",XX"
	}
	for _, kv := range []struct {
		n string
		v int64
	}{{"EX", o.EX}, {"PX", o.PX}, {"EXAT+", o.EXAT}, {"PXAT+", o.PXAT}, {"dur", o.Dur}, {"delta", o.Delta}} {
		if kv.v != 0 {
			s += fmt.Sprintf(",%s=%d", kv.n, kv.v)
		}
	}
	s += fmt.Sprintf(") via %s/m%d", o.Tag, o.M)
	if r.Err != "" {
		s += " -> " + r.Err
	} else if o.K == "get" || o.K == "getput" {
		if r.Has {
			s += fmt.Sprintf(" -> %q ttl=%d", r.Val, r.TTL)
		} else {
			s += " -> none"
		}
	} else if o.K == "incr" || o.K == "decr" {
		s += fmt.Sprintf(" -> %d", r.Int)
	} else if o.K == "del" {
		s += fmt.Sprintf(" -> n=%d", r.N)
	} else {
		s += " -> ok"
	}
	return s + fmt.Sprintf(" @[%d.%03d,%d.%03d]ms", r.TInv/1e6, r.TInv/1e3%1000, r.TRet/1e6, r.TRet/1e3%1000)
}
