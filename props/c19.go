package props

import (
	"encoding/json"
	"fmt"

	"verif/plan"
)

func init() {
	register(&Meta{ID: "C19", Level: "exploration", QuickSec: 40, ThoroSec: 900, WallMaxS: 120,
		Rule: "each run = seeded plan: 1-3 members, R 1-2; two DMaps whose names and keys are chosen from pairs including concatenation collisions ((\"ab\",\"c\") vs (\"a\",\"bc\")), identical keys in both, and an eviction-configured DMap next to an unbounded one; sequential operation chains on both (Put with options, Delete, Expire, Incr, GetPut, Lock/Unlock, Scan) through random entry points, a Destroy of one DMap from a random entry point while a second client keeps writing to the other DMap; afterwards every key of the destroyed DMap is read through every member, both DMaps are scanned, STATS of every member is searched for fragments of the destroyed DMap, and new writes to it are made; oracle: the destroyed DMap is empty everywhere (primary and backup) yet usable, the other DMap equals its own sequential model throughout; non-trivial = both DMaps held keys mapping to the same partition (or colliding name+key) when Destroy ran; distinct = (name pair, key overlap, destroy entry) x schedule fingerprints",
		Assume: []string{"membership stable", "no client writes to the destroyed DMap while Destroy runs (olric documents that concurrent Puts may survive a Destroy)"},
	}, genC19, oracleC19)
}

func genC19(seed uint64, tier string) *plan.Plan {
	r := NewRng(seed, "C19")
	p := base("C19", seed, tier, r)
	n := r.Range(1, 3)
	p.Cluster.Members = n
	p.Cluster.ReplicaCount = r.Range(1, min(2, n))
	p.Cluster.Partitions = partitionsFor(r, n)
	p.Cluster.TableSize = Pick(r, 512, 1<<20)
	p.Cluster.JanitorMs = Pick(r, 20, 5000)
	yields(p, r)
	type pair struct{ a, b string }
	names := Pick(r, pair{"ab", "a"}, pair{"a", "ab"}, pair{"dm", "dm2"}, pair{"x", "y"}, pair{"map", "map."})
	A, B := names.a, names.b
	// keys: collisions of name+key, identical keys, and private keys
	var keysA, keysB []string
	for i := 0; i < r.Range(2, 8); i++ {
		k := fmt.Sprintf("k%d", i)
		keysA = append(keysA, k)
		keysB = append(keysB, k) // identical keys in both
	}
	if len(A) > len(B) && A[:len(B)] == B {
		// "ab"+"c" == "a"+"bc"
		keysA = append(keysA, "c", "c2")
		keysB = append(keysB, A[len(B):]+"c", A[len(B):]+"c2")
	} else if len(B) > len(A) && B[:len(A)] == A {
		keysB = append(keysB, "c", "c2")
		keysA = append(keysA, B[len(A):]+"c", B[len(A):]+"c2")
	}
	if r.Bool(300) {
		// the DMap that will be destroyed is bounded by LRU eviction; the other must not be affected
		p.Cluster.Custom = map[string]plan.DMapSpec{A: {MaxKeys: 1000, EvictionPolicy: "LRU", LRUSamples: 3}}
	}
	ent := func(op plan.Op) plan.Op {
		op.Tag, op.M = Pick(r, "emb", "emb", "cc", "raw"), r.Intn(n)
		return op
	}
	vn := 0
	chain := func(dm string, keys []string, nops int, numericKey string) []plan.Op {
		var ops []plan.Op
		for i := 0; i < nops; i++ {
			k := keys[r.Intn(len(keys))]
			vn++
			switch x := r.Intn(100); {
			case k == numericKey:
				ops = append(ops, ent(plan.Op{K: Pick(r, "incr", "decr"), DM: dm, Key: k, Delta: int64(r.Range(1, 5))}))
			case x < 50:
				op := plan.Op{K: "put", DM: dm, Key: k, Val: fmt.Sprintf("%s-v%d", dm, vn)}
				if r.Bool(150) {
					op.PX = int64(r.Range(2000, 9000))
				}
				ops = append(ops, ent(op))
			case x < 62:
				ops = append(ops, ent(plan.Op{K: "del", DM: dm, Key: k}))
			case x < 70:
				ops = append(ops, ent(plan.Op{K: "expire", DM: dm, Key: k, Dur: int64(r.Range(3000, 9000))}))
			case x < 78:
				ops = append(ops, ent(plan.Op{K: "getput", DM: dm, Key: k, Val: fmt.Sprintf("%s-g%d", dm, vn)}))
			default:
				ops = append(ops, ent(plan.Op{K: "get", DM: dm, Key: k}))
			}
		}
		return ops
	}
	numA, numB := "nA", "nB"
	keysA = append(keysA, numA)
	keysB = append(keysB, numB)
	// phase 0: both DMaps get content (interleaved chains of one client)
	p0 := plan.Script{ID: 1, Kind: "ctl"}
	ca, cb := chain(A, keysA, r.Range(10, 40), numA), chain(B, keysB, r.Range(10, 40), numB)
	for len(ca)+len(cb) > 0 {
		if len(ca) > 0 && (len(cb) == 0 || r.Bool(500)) {
			p0.Ops, ca = append(p0.Ops, ca[0]), ca[1:]
		} else {
			p0.Ops, cb = append(p0.Ops, cb[0]), cb[1:]
		}
	}
	// a lock held in B across the Destroy of A (same key text as a key of A)
	lockKey := keysB[0] + "-lock"
	p0.Ops = append(p0.Ops, plan.Op{K: "lock", DM: B, Key: lockKey, Dur2: 50, Tag: "emb", M: 0})
	lockIdx := len(p0.Ops) - 1
	p0.Ops = append(p0.Ops, plan.Op{K: "lock", DM: A, Key: lockKey, Dur2: 50, Tag: "emb", M: 0}) // same key in A: independent lock
	// phase 1: destroy A while another client works on B
	p1a := plan.Script{ID: 1, Kind: "ctl"}
	p1a.Ops = append(p1a.Ops, plan.Op{K: "ctl.sleep", Dur: int64(Pick(r, 0, 1, 5))})
	p1a.Ops = append(p1a.Ops, ent(plan.Op{K: "destroy", DM: A}))
	p1b := plan.Script{ID: 2, Kind: "ctl", Ops: chain(B, keysB, r.Range(5, 25), numB)}
	// phase 2: verification
	p2 := plan.Script{ID: 1, Kind: "ctl"}
	for _, k := range append(append([]string(nil), keysA...), lockKey) {
		p2.Ops = append(p2.Ops, plan.Op{K: "ctl.get_all", DM: A, Key: k}, plan.Op{K: "ctl.copies", DM: A, Key: k})
	}
	p2.Ops = append(p2.Ops, plan.Op{K: "scan", DM: A, Tag: "emb", M: r.Intn(n)}, plan.Op{K: "scan", DM: A, Tag: "cc"})
	for m := 0; m < n; m++ {
		p2.Ops = append(p2.Ops, plan.Op{K: "ctl.stats", M: m})
	}
	for _, k := range keysB {
		p2.Ops = append(p2.Ops, ent(plan.Op{K: "get", DM: B, Key: k}))
	}
	p2.Ops = append(p2.Ops, plan.Op{K: "scan", DM: B, Tag: Pick(r, "emb", "cc"), M: r.Intn(n)})
	// the lock in B is still held: unlocking it must succeed
	p2.Ops = append(p2.Ops, plan.Op{K: "unlock", DM: B, Key: lockKey, Ref: lockIdx, Tag: "emb", M: 0})
	// the destroyed DMap accepts new writes
	p2.Ops = append(p2.Ops, ent(plan.Op{K: "put", DM: A, Key: keysA[0], Val: "after-destroy"}), ent(plan.Op{K: "get", DM: A, Key: keysA[0]}))
	p2.Ops = append(p2.Ops, ent(plan.Op{K: "get", DM: B, Key: keysA[0]}))
	// phase 3: Destroy again and again. Between two Destroys the DMap is written only through the
	// handles the clients already hold (embedded handles write straight into the owner's fragments),
	// and the next Destroy follows at once or a little later (background eviction visits the new
	// fragments meanwhile); after the last one nothing of it may be left anywhere.
	p3 := plan.Script{ID: 1, Kind: "ctl"}
	var rkeys []string
	for rd, nrd := 0, r.Range(1, 3); rd < nrd; rd++ {
		p3.Ops = append(p3.Ops, ent(plan.Op{K: "destroy", DM: A}))
		for i, nk := 0, r.Range(3, 12); i < nk; i++ {
			k := fmt.Sprintf("r%d", r.Intn(16))
			rkeys = append(rkeys, k)
			vn++
			p3.Ops = append(p3.Ops, plan.Op{K: "put", DM: A, Key: k, Val: fmt.Sprintf("%s-r%d", A, vn), Tag: Pick(r, "emb", "emb", "emb", "cc"), M: r.Intn(n)})
		}
		p3.Ops = append(p3.Ops, plan.Op{K: "ctl.sleep", Dur: int64(Pick(r, 0, 1, 20, 80, 400))})
	}
	if n >= 2 && r.Bool(400) {
		// the member that runs Destroy cannot reach another member: Destroy either reports the failure
		// or everything is gone; after the heal a second Destroy must succeed
		a := r.Intn(n)
		b := (a + 1 + r.Intn(n-1)) % n
		p.Cluster.ClientReadTimeoutMs = 500
		p3.Ops = append(p3.Ops, plan.Op{K: "ctl.cut_link", M: a, Count: b, Dur: int64(r.Intn(2))},
			plan.Op{K: "destroy", DM: A, Tag: Pick(r, "emb", "raw"), M: a, Flag: true})
		for _, k := range rkeys {
			p3.Ops = append(p3.Ops, plan.Op{K: "ctl.get_all", DM: A, Key: k, Tag: "after-faulty-destroy"})
		}
		p3.Ops = append(p3.Ops, plan.Op{K: "ctl.heal_all"}, plan.Op{K: "ctl.sleep", Dur: 1500})
	}
	p3.Ops = append(p3.Ops, ent(plan.Op{K: "destroy", DM: A}))
	for _, k := range append(rkeys, keysA[0]) {
		p3.Ops = append(p3.Ops, plan.Op{K: "ctl.get_all", DM: A, Key: k}, plan.Op{K: "ctl.copies", DM: A, Key: k})
	}
	p3.Ops = append(p3.Ops, plan.Op{K: "scan", DM: A, Tag: "emb", M: r.Intn(n)}, plan.Op{K: "scan", DM: A, Tag: "cc"})
	for m := 0; m < n; m++ {
		p3.Ops = append(p3.Ops, plan.Op{K: "ctl.stats", M: m})
	}
	p3.Ops = append(p3.Ops, plan.Op{K: "scan", DM: B, Tag: Pick(r, "emb", "cc"), M: r.Intn(n)})
	p.Phases = []plan.Phase{
		{Name: "fill", Clients: []plan.Script{p0}},
		{Name: "destroy", Yields: true, Clients: []plan.Script{p1a, p1b}},
		{Name: "verify", Clients: []plan.Script{p2}},
		{Name: "redestroy", Clients: []plan.Script{p3}},
	}
	p.DMap = A
	p.Variant = fmt.Sprintf("%s|%s/keys%d", A, B, len(keysA))
	return p
}

func oracleC19(p *plan.Plan, his []plan.Rec, res *plan.Result) {
	m := newSeqModel(p)
	recs := sortRecs(his)
	A := p.DMap
	destroyed := false
	aClean := false // the last Destroy of A succeeded and nothing was written to A since
	hadA, hadB := false, false
	liveB := map[string]bool{}
	for i := range recs {
		r := &recs[i]
		switch r.Op.K {
		case "destroy":
			if r.Err != "" && r.Op.Flag {
				// a member was unreachable: Destroy reported it, nothing is asserted until the next Destroy
				aClean = false
				res.Counters["oracle.destroy_failed_under_fault"]++
				continue
			}
			if r.Err != "" {
				viol(res, "destroy-failed", errClass(r.Err), "%s", descRecT(r))
				return
			}
			aClean = true
			destroyed = true
			for id, sk := range m.keys {
				if len(id) > len(A) && id[:len(A)+1] == A+"\x00" {
					for _, s := range sk.states {
						if s.P {
							hadA = true
						}
					}
					sk.states = []sState{{}}
				}
			}
		case "get", "put", "getput", "incr", "decr", "expire", "del":
			if isIndeterminate(r.Err) {
				viol(res, "unexpected-error/"+r.Op.K, r.Op.DM, "%s", descRecT(r))
				continue
			}
			if r.Op.DM == A && r.Op.K != "get" {
				aClean = false
			}
			before := m.describe(r.Op.DM, r.Op.Key)
			if bad := m.step(r); len(bad) > 0 {
				class := "other-dmap-disturbed"
				if r.Op.DM == A {
					class = "destroyed-dmap-mismatch"
					if destroyed && r.Op.K == "get" && r.Err == "" {
						class = "key-survived-destroy"
					}
				}
				viol(res, class, r.Op.DM+"/"+r.Op.K, "DMap %q: model before:%s; observed %s [%s]", r.Op.DM, before, descRecT(r), p.Variant)
			}
			if r.Op.DM != A {
				for _, s := range m.key(r.Op.DM, r.Op.Key).states {
					if s.P {
						hadB = true
					}
				}
				live := false
				for _, s := range m.key(r.Op.DM, r.Op.Key).states {
					live = live || s.P
				}
				liveB[r.Op.Key] = live
			}
		case "ctl.get_all":
			if !aClean {
				continue
			}
			for _, c := range r.Copies {
				if c.Err != "" || c.Found {
					viol(res, "key-survived-destroy", "get", "Get(%s/%s) through m%d after Destroy: found=%v val=%q err=%q [%s]", r.Op.DM, r.Op.Key, c.Member, c.Found, c.Val, c.Err, p.Variant)
				}
			}
		case "ctl.copies":
			for _, c := range r.Copies {
				if c.Found && aClean {
					viol(res, "copy-survived-destroy", c.Kind, "m%d still holds a %s copy of %s/%s after Destroy: %q [%s]", c.Member, c.Kind, r.Op.DM, r.Op.Key, c.Val, p.Variant)
				}
			}
		case "scan":
			if r.Err != "" {
				viol(res, "scan-failed", r.Op.DM, "%s", r.Err)
				continue
			}
			if r.Op.DM == A && len(r.Keys) > 0 && aClean {
				viol(res, "scan-after-destroy-not-empty", r.Op.Tag, "scan of destroyed DMap %q yields %v [%s]", A, r.Keys, p.Variant)
			}
			if r.Op.DM != A {
				got := map[string]bool{}
				for _, k := range r.Keys {
					got[k] = true
				}
				for k, live := range liveB {
					// a ttl may have run out between the last operation on the key and this scan
					for _, st := range m.key(r.Op.DM, k).states {
						if !st.P || (st.Exp != 0 && st.Exp <= m.epochMs+r.TRet/1e6+1) {
							live = false
						}
					}
					if live && !got[k] {
						viol(res, "other-dmap-disturbed", "scan", "scan of %q misses live key %s (yields %v) [%s]", r.Op.DM, k, r.Keys, p.Variant)
					}
				}
				for k := range got {
					if live, ok := liveB[k]; (!ok || !live) && k != "" && k[len(k)-1] != 'k' { // the lock key is live too
						if !ok {
							viol(res, "other-dmap-disturbed", "scan-foreign-key", "scan of %q yields %q, which was never written to it [%s]", r.Op.DM, k, p.Variant)
						}
					}
				}
			}
		case "ctl.stats":
			var sb statsBlob
			if r.Info == "" || json.Unmarshal([]byte(r.Info), &sb) != nil {
				continue
			}
			for kind, parts := range map[string]map[string]statsPart{"primary": sb.Partitions, "backup": sb.Backups} {
				for pid, part := range parts {
					if d, ok := part.DMaps[A]; ok && d.Length > 0 && aClean {
						viol(res, "fragment-survived-destroy", kind, "STATS of m%d: %s partition %s still has a fragment of %q with %d keys [%s]", r.Op.M, kind, pid, A, d.Length, p.Variant)
					}
				}
			}
		case "unlock":
			if r.Err != "" {
				viol(res, "other-dmap-disturbed", "lock", "the lock held in the other DMap was lost: %s [%s]", descRecT(r), p.Variant)
			}
		case "lock":
			if r.Err != "" {
				viol(res, "lock-interference", r.Op.DM, "%s: locks on the same key text in two DMaps are independent [%s]", descRecT(r), p.Variant)
			}
		}
	}
	res.Nontrivial = destroyed && hadA && hadB
	res.NTKey = p.Variant + "/" + fpKey(res)
}
