// Package props holds, per property, the plan generator and the oracle. It is
// pure (no olric import): oracles see only the plan and the recorded history.
package props

import (
	"verif/plan"
)

// Oracle inspects the history; it appends to res.Violations, sets Nontrivial/NTKey and may set Status "inconclusive".
type Oracle func(p *plan.Plan, his []plan.Rec, res *plan.Result)

var Oracles = map[string]Oracle{}

// Judge evaluates the recorded run against the property's oracle.
func Judge(p *plan.Plan, runErr error, his []plan.Rec, res *plan.Result) {
	if runErr != nil {
		res.Status = "infra"
		res.Reason = runErr.Error()
		return
	}
	o := Oracles[p.Prop]
	if o == nil {
		res.Status = "pass"
		res.Reason = "no oracle"
		return
	}
	o(p, his, res)
	if len(res.Violations) > 0 {
		res.Status = "violation"
	} else if res.Status == "" {
		res.Status = "pass"
	}
}
