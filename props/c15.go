package props

import (
	"encoding/json"
	"fmt"

	"verif/plan"
)

func init() {
	register(&Meta{ID: "C15", Level: "exploration", QuickSec: 40, ThoroSec: 900, WallMaxS: 120,
		Rule: "each run = one abstract operation sequence (3-9 ops over 1-2 keys plus a multi-key group: Put with NX/XX x EX/PX/EXAT/PXAT, Expire, GetPut, Incr/Decr incl. negative results, single and multi-key Delete over keys spread across members, waits across deadlines, each followed by a Get) instantiated on path-private keys for every client path (embedded on owner, embedded on non-owner, cluster client, raw RESP to owner, raw RESP to non-owner) in a 2-4 member cluster; every path's results and follow-up reads (value, ttl, presence, delete count) must equal the sequential model, hence each other; non-trivial = at least two different paths executed the sequence with at least one forwarded operation; distinct = abstract sequence signatures",
		Assume: []string{"membership stable", "paths use disjoint keys, so the comparison is against the common sequential model rather than pairwise on one key"},
	}, genC15, oracleC15)
}

var c15Paths = []string{"embo", "embn", "cc", "rawo", "rawn"}

func genC15(seed uint64, tier string) *plan.Plan {
	r := NewRng(seed, "C15")
	p := base("C15", seed, tier, r)
	n := r.Range(2, 4)
	p.Cluster.Members = n
	p.Cluster.ReplicaCount = r.Range(1, 2)
	p.Cluster.Partitions = partitionsFor(r, n)
	if p.Cluster.Partitions < 7 {
		p.Cluster.Partitions = 7
	}
	p.Cluster.TableSize = Pick(r, 1024, 1<<20)
	p.Net.MinLatUs, p.Net.MaxLatUs = 5, int64(Pick(r, 20, 100, 400))
	p.Yield = plan.YieldSpec{}
	// abstract sequence
	type aop struct {
		op   plan.Op
		keyI int // which abstract key: 0,1 single keys; -1 multi group
	}
	var seq []aop
	numeric := r.Bool(400)
	vn := 0
	val := func() string {
		vn++
		if numeric {
			return fmt.Sprint(r.Range(-30, 30))
		}
		return fmt.Sprintf("v%d", vn)
	}
	nops := r.Range(3, 9)
	var lastTTLRef, lastTTL int64 = -1, 0
	for i := 0; i < nops; i++ {
		ki := r.Intn(2)
		var a aop
		switch x := r.Intn(100); {
		case x < 32:
			a = aop{ttlOp(r, "", val()), ki}
		case x < 42:
			a = aop{plan.Op{K: "expire", Dur: int64(r.Range(3, 500))}, ki}
		case x < 52:
			a = aop{plan.Op{K: "getput", Val: val()}, ki}
		case x < 66 && numeric:
			a = aop{plan.Op{K: Pick(r, "incr", "decr"), Delta: int64(Pick(r, 1, 7, 100))}, ki}
		case x < 74:
			a = aop{plan.Op{K: "del"}, ki}
		case x < 86:
			a = aop{plan.Op{K: "del"}, -1}
		case x < 93 && lastTTLRef >= 0:
			a = aop{plan.Op{K: "ctl.sleep_rel", Ref: int(lastTTLRef), Dur: lastTTL + int64(Pick(r, -2, 0, 1, 3, 50))}, ki}
		default:
			a = aop{plan.Op{K: "put", Val: val()}, ki}
		}
		seq = append(seq, a)
		if t := a.op.EX + a.op.PX + a.op.EXAT + a.op.PXAT; t > 0 {
			lastTTL = t
			if a.op.EXAT > 0 {
				lastTTL += 1000
			}
			lastTTLRef = int64(len(seq) - 1)
		} else if a.op.K == "expire" {
			lastTTL, lastTTLRef = a.op.Dur, int64(len(seq)-1)
		}
	}
	ngroup := r.Range(3, 6)
	ph := plan.Phase{Name: "paths"}
	for pi, path := range c15Paths {
		sc := plan.Script{ID: pi + 1, Kind: "ctl"}
		key := func(i int) string { return fmt.Sprintf("%s-k%d", path, i) }
		var group []string
		for g := 0; g < ngroup; g++ {
			group = append(group, fmt.Sprintf("%s-g%d", path, g))
		}
		// the group keys exist before the sequence starts
		for _, g := range group {
			sc.Ops = append(sc.Ops, plan.Op{K: "put", Key: g, Val: "x" + g, Tag: "cc"})
		}
		idxMap := map[int]int{} // abstract index -> script index
		for ai, a := range seq {
			op := a.op
			if op.K == "ctl.sleep_rel" {
				op.Ref = idxMap[op.Ref]
				sc.Ops = append(sc.Ops, op)
				continue
			}
			op.Tag, op.M = path, 1
			if a.keyI >= 0 {
				op.Key = key(a.keyI)
			} else {
				// the path's entry is resolved on the first key; keys are spread over the members
				op.Keys = append([]string(nil), group...)
			}
			idxMap[ai] = len(sc.Ops)
			sc.Ops = append(sc.Ops, op)
			// follow-up reads through an independent path
			if a.keyI >= 0 {
				sc.Ops = append(sc.Ops, plan.Op{K: "get", Key: op.Key, Tag: "cc"})
			} else {
				for _, g := range group {
					sc.Ops = append(sc.Ops, plan.Op{K: "get", Key: g, Tag: "cc"})
				}
			}
		}
		ph.Clients = append(ph.Clients, sc)
	}
	// sixth path: the same sequence inside pipelines of the cluster client (batches of 2-5 commands,
	// queued, then Exec); a multi-key Delete becomes one Delete per key
	{
		sc := plan.Script{ID: len(c15Paths) + 1, Kind: "ctl"}
		key := func(i int) string { return fmt.Sprintf("pipe-k%d", i) }
		var group []string
		for g := 0; g < ngroup; g++ {
			group = append(group, fmt.Sprintf("pipe-g%d", g))
		}
		for _, g := range group {
			sc.Ops = append(sc.Ops, plan.Op{K: "put", Key: g, Val: "x" + g, Tag: "cc"})
		}
		idxMap := map[int]int{}
		var batch []string
		var batchAbs []int
		touched := map[string]bool{}
		limit := r.Range(2, 5)
		flush := func() {
			if len(batch) == 0 {
				return
			}
			for _, ai := range batchAbs {
				idxMap[ai] = len(sc.Ops)
			}
			sc.Ops = append(sc.Ops, plan.Op{K: "pipe", Tag: "cc", Args: batch})
			for _, k := range sortedSet(touched) {
				sc.Ops = append(sc.Ops, plan.Op{K: "get", Key: k, Tag: "cc"})
			}
			batch, batchAbs, touched = nil, nil, map[string]bool{}
			limit = r.Range(2, 5)
		}
		for ai, a := range seq {
			op := a.op
			if op.K == "ctl.sleep_rel" {
				flush()
				op.Ref = idxMap[op.Ref]
				sc.Ops = append(sc.Ops, op)
				continue
			}
			var subs []plan.Op
			if a.keyI >= 0 {
				op.Key = key(a.keyI)
				subs = []plan.Op{op}
			} else {
				for _, g := range group {
					subs = append(subs, plan.Op{K: "del", Key: g})
				}
			}
			for _, so := range subs {
				b, _ := json.Marshal(so)
				batch = append(batch, string(b))
				touched[so.Key] = true
			}
			batchAbs = append(batchAbs, ai)
			if len(batch) >= limit {
				flush()
			}
		}
		flush()
		ph.Clients = append(ph.Clients, sc)
	}
	p.Phases = []plan.Phase{ph}
	sig := ""
	for _, a := range seq {
		sig += a.op.K[:3]
		if a.op.NX {
			sig += "n"
		}
		if a.op.XX {
			sig += "x"
		}
		if a.op.EX > 0 {
			sig += "E"
		}
		if a.op.PX > 0 {
			sig += "P"
		}
		if a.op.EXAT > 0 {
			sig += "A"
		}
		if a.op.PXAT > 0 {
			sig += "T"
		}
		if a.keyI < 0 {
			sig += "*"
		}
		sig += "."
	}
	p.Variant = sig
	return p
}

// expandPipes replaces every pipeline record by one record per queued command (in queue order,
// all within the pipeline's invoke/return interval) so that the sequential model sees them like
// the commands of the other paths. Event stamps are scaled to make room for the order.
func expandPipes(his []plan.Rec) []plan.Rec {
	out := make([]plan.Rec, 0, len(his))
	for i := range his {
		r := his[i]
		r.Inv, r.Ret = r.Inv*64, r.Ret*64
		if r.Op.K != "pipe" {
			out = append(out, r)
			continue
		}
		for j, a := range r.Op.Args {
			var so plan.Op
			if json.Unmarshal([]byte(a), &so) != nil {
				continue
			}
			so.Tag = "pipe"
			sr := plan.Rec{Err: r.Err}
			if r.Err == "" && j < len(r.Keys) {
				json.Unmarshal([]byte(r.Keys[j]), &sr)
			}
			sr.Phase, sr.Client, sr.Idx, sr.Op = r.Phase, r.Client, r.Idx, so
			sr.Inv, sr.Ret, sr.TInv, sr.TRet = r.Inv+uint64(j)+1, r.Ret, r.TInv, r.TRet
			out = append(out, sr)
		}
	}
	return out
}

func oracleC15(p *plan.Plan, his []plan.Rec, res *plan.Result) {
	his = expandPipes(his)
	oracleSeq("C15")(p, his, res)
	paths := map[string]bool{}
	for i := range his {
		r := &his[i]
		if r.Op.K == "del" && r.Err == "" {
			want := len(r.Op.Keys)
			if want == 0 {
				want = 1
			}
			if r.N != want {
				viol(res, "delete-count", fmt.Sprintf("via %s nkeys=%d", r.Op.Tag, want), "%s: count %d, want %d", descRecT(r), r.N, want)
			}
		}
		if r.Client >= 1 && r.Client <= len(c15Paths) && r.Op.Tag != "cc" && r.Op.K != "get" {
			paths[c15Paths[r.Client-1]] = true
		}
	}
	res.Nontrivial = len(paths) >= 2 && (paths["embn"] || paths["rawn"])
	res.NTKey = p.Variant
}
