package props

import (
	"encoding/base64"
	"fmt"
	"math"
	"strings"

	"verif/plan"
)

func init() {
	register(&Meta{ID: "C17", Level: "exploration", QuickSec: 40, ThoroSec: 900, WallMaxS: 150,
		Rule: "each run = seeded plan: 1-2 members then a join, R 1-2, table size 4 KiB or 1 MiB; 10-40 typed values drawn from boundary sets of every supported type (all integer widths with min/max, float32/64 with +-0, denormals, extremes, +-Inf, NaN, bool, strings and byte slices that are empty / binary / CRLF / long, time.Time with zones and nanoseconds, time.Duration, a BinaryMarshaler) stored under keys of 0-255 arbitrary bytes through the embedded or the cluster client and read back, into the same type, through the other client, from the backup copy, and again after a member joined and partitions migrated; keys of 256, 257 and 400 bytes and entries of exactly table size -1/0/+1 and 2x must be rejected with the documented errors and leave the neighbouring entries intact; non-trivial = at least one value was read after the partition it lives in had moved to the joined member or from a backup copy; distinct = (type, boundary case, key length class, path) combinations",
		Assume: []string{"NaN is compared as NaN, not by payload bits (the wire format is decimal text)", "a 256-byte key may be accepted or rejected (documentation says 256 is the maximum, the length byte holds 255); 255 must work, 257 must fail"},
	}, genC17, oracleC17)
}

func tv(typ string, lit interface{}) string { return fmt.Sprintf("%s:%v", typ, lit) }
func be(b []byte) string               { return base64.StdEncoding.EncodeToString(b) }

func c17Values(r *Rng, ts int) []string {
	f32 := func(f float32) string { return fmt.Sprintf("f32:%#x", math.Float32bits(f)) }
	f64 := func(f float64) string { return fmt.Sprintf("f64:%#x", math.Float64bits(f)) }
	long := 100 * 1024
	if ts < 1<<20 {
		long = ts / 2
	}
	bin := make([]byte, 256)
	for i := range bin {
		bin[i] = byte(i)
	}
	all := []string{
		tv("int", math.MinInt64), tv("int", math.MaxInt64), tv("int", 0), tv("int", -1),
		tv("int8", -128), tv("int8", 127), tv("int16", -32768), tv("int16", 32767),
		tv("int32", math.MinInt32), tv("int32", math.MaxInt32), tv("int64", math.MinInt64), tv("int64", math.MaxInt64),
		tv("uint", uint64(math.MaxUint64)), tv("uint", 0), tv("uint8", 255), tv("uint16", 65535), tv("uint32", uint32(math.MaxUint32)), tv("uint64", uint64(math.MaxUint64)),
		f32(0), f32(float32(math.Copysign(0, -1))), f32(math.SmallestNonzeroFloat32), f32(math.MaxFloat32), f32(-math.MaxFloat32), f32(float32(math.Inf(1))), f32(float32(math.Inf(-1))), f32(float32(math.NaN())), f32(0.1), f32(1.0 / 3),
		f64(0), f64(math.Copysign(0, -1)), f64(math.SmallestNonzeroFloat64), f64(math.MaxFloat64), f64(-math.MaxFloat64), f64(math.Inf(1)), f64(math.Inf(-1)), f64(math.NaN()), f64(0.1), f64(1e-320), f64(1.0 / 3),
		tv("bool", true), tv("bool", false),
		"str:" + be(nil), "str:" + be([]byte("hello")), "str:" + be([]byte("a\r\nb\r\n")), "str:" + be(bin), "str:" + be([]byte("*3\r\n$3\r\nSET\r\n")), "str:" + be([]byte(strings.Repeat("x", long))), "str:" + be([]byte("0")), "str:" + be([]byte("\x00")),
		"bytes:" + be(nil), "bytes:" + be([]byte{0}), "bytes:" + be(bin), "bytes:" + be([]byte("\r\n")), "bytes:" + be([]byte(strings.Repeat("\xff", long))),
		tv("dur", 0), tv("dur", -1), tv("dur", math.MaxInt64), tv("dur", 1500000000),
		"time:946684800123456789|0", "time:1700000000999999999|19800", "time:1|-43200", "time:4102444800000000000|3600", "time:-1|0",
		"bm:" + be(nil), "bm:" + be(bin), "bm:" + be([]byte("x")),
	}
	n := r.Range(10, 40)
	var out []string
	for i := 0; i < n; i++ {
		out = append(out, all[r.Intn(len(all))])
	}
	return out
}

func c17Key(r *Rng, i int) (string, int) {
	n := Pick(r, 0, 1, 1, 7, 20, 64, 200, 254, 255)
	if i == 0 {
		n = 0
	}
	b := make([]byte, n)
	for j := range b {
		switch r.Intn(4) {
		case 0:
			b[j] = byte(r.Intn(256))
		case 1:
			b[j] = "\r\n \x00*$"[r.Intn(6)]
		default:
			b[j] = byte('a' + r.Intn(26))
		}
	}
	if n >= 2 {
		// make keys unique
		b[0], b[1] = byte(i), byte(i>>8)
	} else if n == 1 {
		b[0] = byte(i)
	}
	return be(b), n
}

func genC17(seed uint64, tier string) *plan.Plan {
	r := NewRng(seed, "C17")
	p := base("C17", seed, tier, r)
	n := r.Range(1, 2)
	p.Cluster.Members = n
	p.Cluster.ReplicaCount = r.Range(1, 2)
	p.Cluster.Partitions = partitionsFor(r, 3)
	ts := Pick(r, 4096, 1<<20)
	p.Cluster.TableSize = ts
	p.Cluster.RoutingPushMs, p.Cluster.BalancerMs = 500, 200
	p.Yield = plan.YieldSpec{}
	vals := c17Values(r, ts)
	ent := func(op plan.Op) plan.Op {
		op.Tag, op.M = Pick(r, "emb", "cc"), r.Intn(n)
		return op
	}
	typeOf := func(v string) string { return v[:strings.IndexByte(v, ':')] }
	w := plan.Script{ID: 1, Kind: "ctl"}
	var keys []string
	usedKeys := map[string]bool{}
	for i, v := range vals {
		k, _ := c17Key(r, i)
		for try := 1; usedKeys[k]; try++ {
			k, _ = c17Key(r, i+1000*try)
		}
		usedKeys[k] = true
		keys = append(keys, k)
		w.Ops = append(w.Ops, ent(plan.Op{K: "putv", Key: k, Flag: true, Val: v}))
		w.Ops = append(w.Ops, ent(plan.Op{K: "getv", Key: k, Flag: true, Pattern: typeOf(v)}))
	}
	// rejected writes: too long keys, entries around the table size
	for _, kl := range []int{256, 257, 400} {
		w.Ops = append(w.Ops, ent(plan.Op{K: "putv", Key: be([]byte(strings.Repeat("K", kl))), Flag: true, Val: "str:" + be([]byte("v")), Tag: "", Count: kl}))
	}
	for _, d := range []int{-40, -1, 0, 1, ts} {
		// entry = 29 bytes of metadata + key + value
		key := "big"
		vl := ts + d - 29 - len(key)
		w.Ops = append(w.Ops, ent(plan.Op{K: "putv", Key: be([]byte(key)), Flag: true, Val: "bytes:" + be([]byte(strings.Repeat("B", vl))), Count: -(ts + d), Delta: int64(d)}))
	}
	// neighbours are intact
	for i, v := range vals {
		w.Ops = append(w.Ops, ent(plan.Op{K: "getv", Key: keys[i], Flag: true, Pattern: typeOf(v)}))
	}
	// overwrite and delete/rewrite part of the keys before the migration: the fragments that move
	// then contain superseded versions (garbage) between the live entries
	cur := append([]string(nil), vals...)
	if r.Bool(700) {
		for i := range vals {
			switch x := r.Intn(100); {
			case x < 35:
				cur[i] = vals[r.Intn(len(vals))]
				w.Ops = append(w.Ops, ent(plan.Op{K: "putv", Key: keys[i], Flag: true, Val: cur[i]}))
			case x < 45:
				cur[i] = vals[r.Intn(len(vals))]
				w.Ops = append(w.Ops, ent(plan.Op{K: "delv", Key: keys[i], Flag: true}), ent(plan.Op{K: "putv", Key: keys[i], Flag: true, Val: cur[i]}))
			}
		}
		for i, v := range cur {
			w.Ops = append(w.Ops, ent(plan.Op{K: "getv", Key: keys[i], Flag: true, Pattern: typeOf(v)}))
		}
	}
	mig := plan.Script{ID: 1, Kind: "ctl", Ops: []plan.Op{
		{K: "ctl.join", M: n},
		{K: "ctl.wait_stable", Dur: 120000, Dur2: 2000},
	}}
	rd := plan.Script{ID: 1, Kind: "ctl"}
	for i, v := range cur {
		op := plan.Op{K: "getv", Key: keys[i], Flag: true, Pattern: typeOf(v), Tag: Pick(r, "emb", "cc"), M: r.Intn(n + 1)}
		rd.Ops = append(rd.Ops, op)
	}
	p.Phases = []plan.Phase{{Name: "write", Clients: []plan.Script{w}}, {Name: "migrate", Clients: []plan.Script{mig}}, {Name: "reread", Clients: []plan.Script{rd}}}
	p.Params["table_size"] = int64(ts)
	return p
}

func b64first(k string) byte {
	b, _ := base64.StdEncoding.DecodeString(k)
	if len(b) == 0 {
		return 0
	}
	return b[0]
}

func sameValue(want, got string) bool {
	if want == got {
		return true
	}
	// NaN: any NaN
	for _, p := range []string{"f32:", "f64:"} {
		if strings.HasPrefix(want, p) && strings.HasPrefix(got, p) {
			var a, b uint64
			fmt.Sscanf(want[4:], "%v", &a)
			fmt.Sscanf(got[4:], "%v", &b)
			if p == "f32:" {
				fa, fb := math.Float32frombits(uint32(a)), math.Float32frombits(uint32(b))
				return fa != fa && fb != fb
			}
			fa, fb := math.Float64frombits(a), math.Float64frombits(b)
			return fa != fa && fb != fb
		}
	}
	return false
}

func short(s string) string {
	if len(s) > 60 {
		return s[:60] + fmt.Sprintf("...(%d chars)", len(s))
	}
	return s
}

func oracleC17(p *plan.Plan, his []plan.Rec, res *plan.Result) {
	recs := sortRecs(his)
	stored := map[string]string{} // key -> typed value
	sig := map[string]bool{}
	ts := int(p.Params["table_size"])
	joined := false
	for i := range recs {
		r := &recs[i]
		switch r.Op.K {
		case "ctl.join":
			joined = r.Err == ""
		case "ctl.wait_stable":
			if r.Err != "" {
				res.Status, res.Reason = "inconclusive", r.Err
				return
			}
		case "putv":
			typ := r.Op.Val[:strings.IndexByte(r.Op.Val, ':')]
			switch {
			case r.Op.Count >= 256: // key length boundary
				switch {
				case r.Op.Count == 256:
				case r.Err != plan.EKeyTooLarge:
					viol(res, "long-key-not-rejected", fmt.Sprintf("len=%d via %s", r.Op.Count, r.Op.Tag), "Put with a %d-byte key returned %q, want key-too-large", r.Op.Count, r.Err)
				}
			case r.Op.Count < 0: // entry size boundary
				size := -r.Op.Count
				switch {
				case size > ts && r.Err != plan.EEntryTooLarge:
					viol(res, "oversized-entry-not-rejected", fmt.Sprintf("size=ts%+d via %s", r.Op.Delta, r.Op.Tag), "Put of a %d-byte entry into %d-byte tables returned %q, want entry-too-large", size, ts, r.Err)
				case size < ts-1 && r.Err != "":
					viol(res, "fitting-entry-rejected", fmt.Sprintf("size=ts%+d via %s", r.Op.Delta, r.Op.Tag), "Put of a %d-byte entry into %d-byte tables failed: %s", size, ts, r.Err)
				case r.Err != "" && r.Err != plan.EEntryTooLarge:
					viol(res, "entry-boundary-wrong-error", fmt.Sprintf("size=ts%+d via %s", r.Op.Delta, r.Op.Tag), "Put of a %d-byte entry into %d-byte tables: %s", size, ts, r.Err)
				}
			default:
				if r.Err != "" {
					viol(res, "put-failed", typ+" via "+r.Op.Tag, "Put(%s key, %s) failed: %s", keyClass(r.Op.Key), short(r.Op.Val), r.Err)
					continue
				}
				stored[r.Op.Key] = r.Op.Val
			}
		case "getv":
			want, ok := stored[r.Op.Key]
			if !ok {
				continue
			}
			typ := want[:strings.IndexByte(want, ':')]
			where := "same-members"
			if r.Phase == 2 && joined {
				where = "after-join"
				res.Nontrivial = true
			}
			sig[typ+"/"+keyClass(r.Op.Key)+"/"+r.Op.Tag+"/"+where] = true
			switch {
			case r.Err != "":
				viol(res, "value-unreadable", typ+" via "+r.Op.Tag+" "+where, "Get(%s key) of a stored %s failed: %s", keyClass(r.Op.Key), short(want), r.Err)
			case r.Info != "":
				viol(res, "value-does-not-decode", typ+" via "+r.Op.Tag+" "+where, "reading %s back into %s: %s", short(want), typ, r.Info)
			case !sameValue(want, r.Val):
				viol(res, "value-differs", typ+" via "+r.Op.Tag+" "+where, "stored %s under a %s key, read back %s", short(want), keyClass(r.Op.Key), short(r.Val))
			}
		}
	}
	res.NTKey = fmt.Sprint(sortedSet(sig))
}

func keyClass(k64 string) string {
	b, _ := base64.StdEncoding.DecodeString(k64)
	switch n := len(b); {
	case n == 0:
		return "empty"
	case n <= 1:
		return "1-byte"
	case n < 64:
		return "short"
	case n < 254:
		return "long"
	default:
		return fmt.Sprintf("%d-byte", n)
	}
}
