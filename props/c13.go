package props

import (
	"fmt"
	"math"
	"sort"
	"strings"

	"verif/plan"
)

func init() {
	register(&Meta{ID: "C13", Level: "exploration", QuickSec: 50, ThoroSec: 1200, WallMaxS: 180,
		Rule: "each run = seeded membership history: 1-3 initial members then up to 6 events from {join, graceful leave, abrupt crash (reset or silent), restart under the same address, coordinator departure}, with gossip loss/duplication/delay, R 1-3, several partition counts; after the bounded stabilisation wait every member's own routing view, CLUSTER.ROUTINGTABLE, CLUSTER.MEMBERS, STATS and a ClusterClient's table are collected and validated; non-trivial = at least one membership event after formation and the final cluster has >= 2 members; distinct = event-sequence signatures",
		Assume: []string{"stabilisation bound: 60 s + 13 s per partition of simulated time after the last event (memberlist suspicion, routing pushes, and one balancer pass in which every fragment move runs into the client read timeout); exceeding it is reported as not-stabilised", "partition count >= member count (the consistent-hash library panics otherwise)"},
	}, genC13, oracleC13)
}

func genC13(seed uint64, tier string) *plan.Plan {
	r := NewRng(seed, "C13")
	p := base("C13", seed, tier, r)
	n := r.Range(1, 3)
	p.Cluster.Members = n
	p.Cluster.ReplicaCount = r.Range(1, 3)
	p.Cluster.Partitions = partitionsFor(r, 6)
	p.Cluster.RoutingPushMs = Pick(r, 500, 2000, 10000)
	p.Cluster.BalancerMs = Pick(r, 200, 1000)
	p.Net.PktDropPermille = uint64(Pick(r, 0, 20, 100))
	p.Net.PktDupPermille = uint64(Pick(r, 0, 20))
	p.Yield = plan.YieldSpec{}
	if r.Bool(300) {
		p.Yield = plan.YieldSpec{ArmPermille: 50, ParkPermille: 200, MaxUs: 500}
	}
	// Worst case for one balancer pass over un-bootstrapped receivers: every partition move
	// runs into the client read timeout (3 s x 4 attempts) while the routing push waits.
	bound := int64(60000 + 13000*p.Cluster.Partitions)
	sc := plan.Script{ID: 1, Kind: "ctl"}
	// a little data so that previous owners hold something
	for i := 0; i < r.Range(0, 12); i++ {
		sc.Ops = append(sc.Ops, plan.Op{K: "put", Key: fmt.Sprintf("k%d", i), Val: "v", Tag: "emb", M: 0})
	}
	state := make([]int, 6) // 0 unused, 1 running, 2 stopped
	for i := 0; i < n; i++ {
		state[i] = 1
	}
	running := func() []int {
		var o []int
		for i, s := range state {
			if s == 1 {
				o = append(o, i)
			}
		}
		return o
	}
	sig := ""
	nev := r.Range(1, 6)
	for e := 0; e < nev; e++ {
		run := running()
		x := r.Intn(100)
		switch {
		case x < 40 || len(run) <= 1:
			// join a fresh slot or restart a stopped one
			var cand []int
			for i, s := range state {
				if s != 1 {
					cand = append(cand, i)
				}
			}
			if len(cand) == 0 {
				continue
			}
			i := cand[r.Intn(len(cand))]
			if state[i] == 2 {
				sig += "R"
			} else {
				sig += "J"
			}
			state[i] = 1
			sc.Ops = append(sc.Ops, plan.Op{K: "ctl.join", M: i})
		case x < 65:
			i := run[r.Intn(len(run))]
			if r.Bool(400) {
				i = run[0] // the oldest running member is usually the coordinator
			}
			state[i] = 2
			sig += "L"
			sc.Ops = append(sc.Ops, plan.Op{K: "ctl.leave", M: i})
		default:
			i := run[r.Intn(len(run))]
			if r.Bool(400) {
				i = run[0]
			}
			state[i] = 2
			sig += "C"
			sc.Ops = append(sc.Ops, plan.Op{K: "ctl.crash", M: i, Flag: r.Bool(500)})
		}
		// sometimes let the cluster settle between events, sometimes pile events up
		switch r.Intn(3) {
		case 0:
			sc.Ops = append(sc.Ops, plan.Op{K: "ctl.wait_stable", Dur: bound})
		case 1:
			sc.Ops = append(sc.Ops, plan.Op{K: "ctl.sleep", Dur: int64(Pick(r, 1, 50, 700, 3000))})
		}
	}
	if len(running()) == 0 {
		sc.Ops = append(sc.Ops, plan.Op{K: "ctl.join", M: 0})
		sig += "R"
	}
	// Emptied owners are pruned by the coordinator at the routing push after they report no
	// left-over data: the view must stay unchanged for two push periods plus balancer rounds.
	quiet := int64(2*p.Cluster.RoutingPushMs + 3*p.Cluster.BalancerMs + 500)
	// (its own phase: a writer that is still running keeps refilling owners that are about to be
	// pruned, so the final stabilisation starts when the writer is done)
	final := plan.Script{ID: 1, Kind: "ctl", Ops: []plan.Op{
		{K: "ctl.wait_stable", Dur: bound + 3*quiet, Dur2: quiet, Tag: "final"},
		{K: "ctl.snapshot", Flag: true},
	}}
	clients := []plan.Script{sc}
	if r.Bool(500) {
		// a writer keeps putting fresh keys (mostly into partitions that are still empty) through the
		// cluster client while the membership changes: members that are no longer listed for a
		// partition receive data and report it back to the coordinator
		w := plan.Script{ID: 2, Kind: "cc"}
		for i, k := 0, r.Range(100, 400); i < k; i++ {
			w.Ops = append(w.Ops, plan.Op{K: "put", Key: fmt.Sprintf("w%d", i), Val: "w", D: int64(Pick(r, 0, 500, 5000, 40000))})
		}
		clients = append(clients, w)
		sig += "+w"
	}
	p.Phases = []plan.Phase{{Name: "membership", Yields: true, Clients: clients}, {Name: "final", Yields: true, Clients: []plan.Script{final}}}
	p.Variant = sig
	return p
}

func routeStr(m map[uint64]plan.Route) string {
	ids := make([]uint64, 0, len(m))
	for id := range m {
		ids = append(ids, id)
	}
	sort.Slice(ids, func(i, j int) bool { return ids[i] < ids[j] })
	var sb strings.Builder
	for _, id := range ids {
		fmt.Fprintf(&sb, "%d:%s|%s;", id, strings.Join(m[id].Owners, ","), strings.Join(m[id].Backups, ","))
	}
	return sb.String()
}

func bareName(s string) string {
	if i := strings.IndexByte(s, '#'); i >= 0 {
		return s[:i]
	}
	return s
}

// checkSnapshot validates a stabilised snapshot; used by C13 and by C02/C03 as a precondition.
func checkSnapshot(p *plan.Plan, s *plan.Snapshot, res *plan.Result) {
	if s == nil || len(s.Members) == 0 {
		return
	}
	n := len(s.Members)
	live := map[string]plan.MemberInfo{}
	for _, m := range s.Members {
		if m.Err != "" {
			viol(res, "snapshot-error", fmt.Sprintf("m%d", m.Idx), "%s", m.Err)
			continue
		}
		live[m.Self.Name] = m.Self
	}
	ref := s.Members[0]
	refStr := routeStr(ref.Local)
	parts := p.Cluster.Partitions
	if parts == 0 {
		parts = 271
	}
	// 1. agreement
	for _, m := range s.Members {
		if routeStr(m.Local) != refStr {
			viol(res, "routing-disagreement", fmt.Sprintf("m%d-vs-m%d", m.Idx, ref.Idx), "local views differ:\n m%d: %s\n m%d: %s", ref.Idx, refStr, m.Idx, routeStr(m.Local))
		}
		if m.RTErr != "" {
			viol(res, "routing-command-failed", fmt.Sprintf("m%d", m.Idx), "CLUSTER.ROUTINGTABLE on m%d: %s", m.Idx, m.RTErr)
		} else if routeStr(m.ClusterRT) != refStr {
			viol(res, "routing-disagreement", fmt.Sprintf("cluster-rt-m%d", m.Idx), "CLUSTER.ROUTINGTABLE answered by m%d differs from the members' view:\n view: %s\n cmd:  %s", m.Idx, refStr, routeStr(m.ClusterRT))
		}
	}
	if s.CErr != "" {
		viol(res, "client-routing-failed", "client", "%s", s.CErr)
	} else if s.Client != nil && routeStr(s.Client) != refStr {
		viol(res, "routing-disagreement", "client", "ClusterClient routing table differs:\n view:   %s\n client: %s", refStr, routeStr(s.Client))
	}
	// 2. validity per partition
	wantBackups := p.Cluster.ReplicaCount - 1
	if wantBackups < 0 {
		wantBackups = 0
	}
	if wantBackups > n-1 {
		wantBackups = n - 1
	}
	load := map[string]int{}
	if uint64(len(ref.Local)) != parts {
		viol(res, "routing-incomplete", "table", "routing table has %d partitions, want %d", len(ref.Local), parts)
	}
	byName := map[string]*plan.MemberSnap{}
	for i := range s.Members {
		byName[s.Members[i].Addr] = &s.Members[i]
	}
	for id, rt := range ref.Local {
		if len(rt.Owners) == 0 {
			viol(res, "no-primary-owner", fmt.Sprintf("part%d", id), "partition %d has no owner", id)
			continue
		}
		cur := rt.Owners[len(rt.Owners)-1]
		load[cur]++
		if _, ok := live[cur]; !ok {
			viol(res, "departed-member-listed", "primary", "partition %d: current owner %s is not a live member", id, cur)
		}
		seen := map[string]bool{}
		for i, o := range rt.Owners {
			if seen[o] {
				viol(res, "duplicate-owner", fmt.Sprintf("part%d", id), "partition %d lists %s twice: %v", id, o, rt.Owners)
			}
			seen[o] = true
			if i == len(rt.Owners)-1 {
				break
			}
			ms := byName[o]
			if ms == nil {
				viol(res, "departed-member-listed", "previous-owner", "partition %d: previous owner %s is not a live member (owners %v)", id, o, rt.Owners)
				continue
			}
			if ps, ok := ms.Primary[id]; !ok || ps.Length == 0 {
				viol(res, "empty-previous-owner", fmt.Sprintf("part%d", id), "partition %d: previous owner %s holds no data but is still listed (owners %v)", id, o, rt.Owners)
			}
		}
		if len(rt.Backups) != wantBackups {
			// further backup owners are allowed only while they still hold data
			extraOK := len(rt.Backups) > wantBackups
			if extraOK {
				for _, b := range rt.Backups[:len(rt.Backups)-wantBackups] {
					ms := byName[b]
					if ms == nil {
						extraOK = false
					} else if ps, ok := ms.Backup[id]; !ok || ps.Length == 0 {
						extraOK = false
					}
				}
			}
			if !extraOK {
				viol(res, "backup-count", fmt.Sprintf("want%d", wantBackups), "partition %d has backups %v, want %d (R=%d, members=%d)", id, rt.Backups, wantBackups, p.Cluster.ReplicaCount, n)
			}
		}
		bs := map[string]bool{}
		for _, b := range rt.Backups {
			if _, ok := live[b]; !ok {
				viol(res, "departed-member-listed", "backup", "partition %d: backup owner %s is not a live member", id, b)
			}
			if bs[b] {
				viol(res, "duplicate-backup", fmt.Sprintf("part%d", id), "partition %d lists backup %s twice", id, b)
			}
			bs[b] = true
		}
		if wantBackups > 0 && len(rt.Backups) > 0 && rt.Backups[len(rt.Backups)-1] == cur {
			viol(res, "backup-equals-primary", fmt.Sprintf("part%d", id), "partition %d: %s is both primary and current backup", id, cur)
		}
	}
	// 3. load bound
	maxLoad := int(math.Ceil(float64(parts) / float64(n) * 1.25))
	for name, l := range load {
		if l > maxLoad {
			viol(res, "load-bound", name, "%s owns %d partitions, bound %d (P=%d, N=%d, load factor 1.25)", name, l, maxLoad, parts, n)
		}
	}
	// 4. membership and coordinator
	var oldest plan.MemberInfo
	for _, mi := range live {
		if oldest.Name == "" || mi.Birthdate < oldest.Birthdate {
			oldest = mi
		}
	}
	for _, m := range s.Members {
		if m.Err != "" {
			continue
		}
		if m.Coord.ID != oldest.ID {
			viol(res, "wrong-coordinator", fmt.Sprintf("m%d", m.Idx), "m%d reports coordinator %s#%d, the oldest live member is %s#%d", m.Idx, m.Coord.Name, m.Coord.ID, oldest.Name, oldest.ID)
		}
		if len(m.Known) != n {
			viol(res, "member-list", fmt.Sprintf("m%d", m.Idx), "m%d knows %d members, %d are running: %+v", m.Idx, len(m.Known), n, m.Known)
		}
		for _, k := range m.Known {
			if lv, ok := live[k.Name]; !ok || lv.ID != k.ID {
				viol(res, "departed-member-listed", "member-list", "m%d lists %s#%d which is not a live member", m.Idx, k.Name, k.ID)
			}
		}
		ncoord := 0
		for _, k := range m.MembersCmd {
			if k.Coord {
				ncoord++
				if k.Name != oldest.Name {
					viol(res, "wrong-coordinator", fmt.Sprintf("members-cmd-m%d", m.Idx), "CLUSTER.MEMBERS on m%d marks %s as coordinator, oldest is %s", m.Idx, k.Name, oldest.Name)
				}
			}
		}
		if len(m.MembersCmd) != n || ncoord != 1 {
			viol(res, "member-list", fmt.Sprintf("members-cmd-m%d", m.Idx), "CLUSTER.MEMBERS on m%d: %d members, %d coordinators, %d running", m.Idx, len(m.MembersCmd), ncoord, n)
		}
		// ids of backups / previous owners reported by STATS must be live ids
		for id, ps := range m.Primary {
			for _, o := range append(append([]string(nil), ps.PrevOwners...), ps.Backups...) {
				nm := bareName(o)
				if lv, ok := live[nm]; !ok || fmt.Sprintf("%s#%d", nm, lv.ID) != o {
					viol(res, "departed-member-listed", "stats", "STATS on m%d partition %d lists %s which is not a live member id", m.Idx, id, o)
				}
			}
		}
	}
}

func oracleC13(p *plan.Plan, his []plan.Rec, res *plan.Result) {
	var snap *plan.Snapshot
	events := 0
	invariantSeen := false
	for i := range his {
		r := &his[i]
		switch r.Op.K {
		case "ctl.join", "ctl.leave", "ctl.crash":
			events++
			if strings.HasPrefix(r.Err, "other:") {
				res.Status, res.Reason = "inconclusive", "member start failed: "+r.Err
			}
		case "ctl.wait_stable":
			if strings.HasPrefix(r.Info, "invariant:") && !invariantSeen {
				invariantSeen = true
				viol(res, "owner-differs-under-equal-signature", "primary", "%s [%s]", strings.TrimPrefix(r.Info, "invariant:"), p.Variant)
			}
			if r.Err != "" && r.Op.Tag == "final" {
				viol(res, "not-stabilised", p.Variant+stormTag(r.Err)+bootTag(r.Err), "after events %s the cluster did not stabilise within the bound: %s", p.Variant, r.Err)
			}
		case "ctl.snapshot":
			snap = r.Snap
		}
	}
	if snap != nil && snap.Stable {
		checkSnapshot(p, snap, res)
	} else if snap != nil && len(res.Violations) == 0 {
		viol(res, "not-stabilised", p.Variant, "final snapshot not stable: %s", snap.Why)
	}
	res.Nontrivial = events > 0 && snap != nil && len(snap.Members) >= 2
	res.NTKey = p.Variant + fmt.Sprintf("/R%d/P%d/N%d", p.Cluster.ReplicaCount, p.Cluster.Partitions, p.Cluster.Members)
}
