package props

import (
	"fmt"

	"verif/plan"
)

func init() {
	register(&Meta{ID: "C09", Level: "exploration", QuickSec: 40, ThoroSec: 900, WallMaxS: 120,
		Rule: "each run = seeded plan: 1-3 members, R 1-2, background eviction running, optional DMap default TTL; 1-3 keys, per key a sequential chain in which a TTL is established (EX, PX, EXAT, PXAT, default TTL, Expire) and then Get / GetPut / Incr / Put NX / Put XX / Expire / Delete are placed at chosen offsets around the deadline (-2..+2 ms and far after) through random entry points (embedded owner/non-owner, cluster client, raw RESP owner/non-owner); every result is compared, on the simulated clock with millisecond exactness, against a sequential expiry model; non-trivial = an operation was issued within 2 ms of a pending deadline or after it; distinct = (ttl form, probing op, side of deadline) signatures",
		Assume: []string{"membership stable", "expiry is millisecond-granular: an op that overlaps the deadline millisecond may observe either side; no other tolerance"},
	}, genC09, oracleSeq("C09"))
}

func ttlOp(r *Rng, key, val string) plan.Op {
	op := plan.Op{K: "put", Key: key, Val: val}
	switch r.Intn(5) {
	case 0:
		op.EX = int64(r.Range(1, 2)) * 1000
	case 1:
		op.PX = int64(r.Range(3, 400))
	case 2:
		op.EXAT = int64(r.Range(200, 1500))
	case 3:
		op.PXAT = int64(r.Range(3, 400))
	}
	if r.Bool(150) {
		op.NX = true
	} else if r.Bool(150) {
		op.XX = true
	}
	return op
}

func pickEntry(r *Rng, op *plan.Op) {
	op.Tag = Pick(r, "embo", "embn", "cc", "rawo", "rawn")
	op.M = r.Intn(4)
}

func genC09(seed uint64, tier string) *plan.Plan {
	r := NewRng(seed, "C09")
	p := base("C09", seed, tier, r)
	n := r.Range(1, 3)
	p.Cluster.Members = n
	p.Cluster.ReplicaCount = r.Range(1, min(2, n))
	p.Cluster.Partitions = partitionsFor(r, n)
	p.Cluster.TableSize = Pick(r, 512, 1<<20)
	p.Net.MinLatUs, p.Net.MaxLatUs = 5, int64(Pick(r, 20, 100, 600))
	if r.Bool(250) {
		p.Cluster.TTLMs = Pick(r, 50, 300, 2000)
	}
	yields(p, r)
	p.Yield.MaxUs = min(p.Yield.MaxUs, 300)
	if r.Bool(300) {
		// many short pauses at the scheduling points (function entries and clock reads)
		p.Yield = plan.YieldSpec{ArmPermille: 700, ParkPermille: 500, MaxUs: int64(Pick(r, 100, 400, 900))}
	}
	nchains := r.Range(1, 3)
	ph := plan.Phase{Name: "chains", Yields: true}
	vn := 0
	for c := 1; c <= nchains; c++ {
		key := fmt.Sprintf("k%d", c)
		sc := plan.Script{ID: c, Kind: "ctl"}
		numeric := r.Bool(400)
		val := func() string {
			vn++
			if numeric {
				return fmt.Sprint(r.Range(-40, 40))
			}
			return fmt.Sprintf("v%d.%d", c, vn)
		}
		add := func(op plan.Op) int {
			if op.K != "ctl.sleep" && op.K != "ctl.sleep_rel" {
				pickEntry(r, &op)
			}
			sc.Ops = append(sc.Ops, op)
			return len(sc.Ops) - 1
		}
		rounds := r.Range(1, 4)
		for round := 0; round < rounds; round++ {
			// establish a ttl
			var ttl int64
			var ref int
			if r.Bool(250) {
				// plain put (default ttl or none) followed by Expire
				add(plan.Op{K: "put", Key: key, Val: val()})
				ttl = int64(r.Range(3, 400))
				ref = add(plan.Op{K: "expire", Key: key, Dur: ttl})
			} else {
				op := ttlOp(r, key, val())
				ttl = op.EX + op.PX + op.EXAT + op.PXAT
				if op.EXAT > 0 {
					ttl += 1000 // rounded up to a whole second
				}
				if ttl == 0 {
					ttl = int64(p.Cluster.TTLMs)
				}
				ref = add(op)
			}
			// probes around the deadline
			nprobe := r.Range(1, 5)
			for i := 0; i < nprobe; i++ {
				if ttl > 0 {
					off := int64(Pick(r, -30, -2, -1, -1, 0, 0, 1, 2, 3, 40, 1200))
					add(plan.Op{K: "ctl.sleep_rel", Ref: ref, Dur: ttl + off})
				} else {
					add(plan.Op{K: "ctl.sleep", Dur: int64(Pick(r, 1, 50, 3000))})
				}
				var op plan.Op
				switch x := r.Intn(100); {
				case x < 35:
					op = plan.Op{K: "get", Key: key}
				case x < 45:
					op = plan.Op{K: "getput", Key: key, Val: val()}
				case numeric && (x < 60 || r.Bool(400)):
					op = plan.Op{K: Pick(r, "incr", "decr"), Key: key, Delta: int64(r.Range(1, 9))}
				case x < 70:
					op = plan.Op{K: "put", Key: key, Val: val(), NX: true}
				case x < 80:
					op = plan.Op{K: "put", Key: key, Val: val(), XX: true}
				case x < 88:
					op = plan.Op{K: "expire", Key: key, Dur: int64(r.Range(3, 300))}
				case x < 93:
					op = plan.Op{K: "del", Key: key}
				default:
					op = plan.Op{K: "put", Key: key, Val: val()}
				}
				if r.Bool(600) {
					// a sub-millisecond phase: the operation is in flight (between its own expiry
					// check and its write) while the deadline passes
					op.D = int64(r.Intn(1000))
				}
				j := add(op)
				add(plan.Op{K: "get", Key: key})
				if op.K == "expire" || (op.K == "put" && p.Cluster.TTLMs > 0) {
					// the deadline moved: later probes are relative to this op
					if op.K == "expire" {
						ttl, ref = op.Dur, j
					} else {
						ttl, ref = int64(p.Cluster.TTLMs), j
					}
				} else if op.K == "put" || op.K == "getput" || op.K == "del" {
					if p.Cluster.TTLMs > 0 {
						ttl, ref = int64(p.Cluster.TTLMs), j
					} else {
						ttl = 0
					}
				}
			}
		}
		ph.Clients = append(ph.Clients, sc)
	}
	// Missed backup: with two replicas, the ttl of a key is set (Expire, or Put with PX) while the
	// owner cannot reach the backup - the write quorum of 1 is met, the backup keeps the older copy
	// without, or with a later, deadline. After the deadline no path may return the key.
	var missed *plan.Phase
	if n >= 2 && r.Bool(300) {
		p.Cluster.ReplicaCount = 2
		p.Cluster.ClientReadTimeoutMs = 500
		sc := plan.Script{ID: 8, Kind: "ctl"}
		for i, nk := 0, r.Range(2, 6); i < nk; i++ {
			key := fmt.Sprintf("m%d", i)
			// (go-redis keeps answering with the last dial error for up to a second after a link came
			// back: the deadline lies well behind that)
			ttl := int64(r.Range(1400, 2500))
			first := plan.Op{K: "put", Key: key, Val: fmt.Sprint(10 + i), Tag: "cc"}
			if r.Bool(400) {
				first.PX = 60000
			}
			sc.Ops = append(sc.Ops, first, plan.Op{K: "ctl.cut_backups", Key: key, Count: 1})
			var set plan.Op
			if r.Bool(600) {
				set = plan.Op{K: "expire", Key: key, Dur: ttl, Tag: Pick(r, "embo", "cc", "rawo")}
			} else {
				set = plan.Op{K: "put", Key: key, Val: fmt.Sprint(50 + i), PX: ttl, Tag: Pick(r, "embo", "cc", "rawo")}
			}
			sc.Ops = append(sc.Ops, set)
			ref := len(sc.Ops) - 1
			sc.Ops = append(sc.Ops, plan.Op{K: "ctl.heal_all"},
				plan.Op{K: "ctl.sleep_rel", Ref: ref, Dur: ttl + int64(Pick(r, 2, 5, 30))})
			probe := plan.Op{K: Pick(r, "get", "get", "getput", "incr"), Key: key, Val: "99", Delta: 1}
			pickEntry(r, &probe)
			sc.Ops = append(sc.Ops, probe, plan.Op{K: "get", Key: key, Tag: "cc"})
		}
		// (its own phase: the cut link must not disturb the other chains)
		missed = &plan.Phase{Name: "missed-backup", Clients: []plan.Script{sc}}
	}
	// Rewrite-after-expiry: many keys with the same short ttl are rewritten (plain Put, Put with a
	// new ttl, NX, Incr, GetPut) in the tenths of a second after they expired, i.e. while background
	// eviction is visiting them; every rewritten key must still be there afterwards.
	if r.Bool(500) {
		sc := plan.Script{ID: 9, Kind: "ctl"}
		ttl := int64(r.Range(20, 200))
		nk := r.Range(6, 24)
		dense := r.Bool(600)
		if dense {
			// many keys in few partitions, rewritten about one per millisecond for longer than one
			// eviction period: some rewrites land while the eviction pass is working on their fragment
			nk = r.Range(40, 90)
			p.Cluster.Partitions = uint64(max(n, Pick(r, 1, 3)))
			p.Cluster.ReplicaCount = min(2, n)
		}
		for i := 0; i < nk; i++ {
			op := plan.Op{K: "put", Key: fmt.Sprintf("r%02d", i), Val: fmt.Sprint(i), PX: ttl}
			pickEntry(r, &op)
			sc.Ops = append(sc.Ops, op)
		}
		first := 0
		sc.Ops = append(sc.Ops, plan.Op{K: "ctl.sleep_rel", Ref: first, Dur: ttl + int64(nk) + int64(r.Range(2, 80))})
		for i := 0; i < nk; i++ {
			k := fmt.Sprintf("r%02d", i)
			var op plan.Op
			switch r.Intn(5) {
			case 0:
				op = plan.Op{K: "put", Key: k, Val: fmt.Sprint(100 + i), PX: 60000}
			case 1:
				op = plan.Op{K: "put", Key: k, Val: fmt.Sprint(100 + i), NX: true}
			case 2:
				op = plan.Op{K: "incr", Key: k, Delta: int64(100 + i)}
			case 3:
				op = plan.Op{K: "getput", Key: k, Val: fmt.Sprint(100 + i)}
			default:
				op = plan.Op{K: "put", Key: k, Val: fmt.Sprint(100 + i)}
			}
			op.D = int64(Pick(r, 0, 500, 4000, 15000))
			if dense {
				op.D = int64(Pick(r, 300, 1000, 2500))
			}
			pickEntry(r, &op)
			sc.Ops = append(sc.Ops, op)
		}
		sc.Ops = append(sc.Ops, plan.Op{K: "ctl.sleep", Dur: int64(Pick(r, 150, 400, 1000))})
		for i := 0; i < nk; i++ {
			op := plan.Op{K: "get", Key: fmt.Sprintf("r%02d", i)}
			pickEntry(r, &op)
			sc.Ops = append(sc.Ops, op)
		}
		ph.Clients = append(ph.Clients, sc)
	}
	p.Phases = []plan.Phase{ph}
	if missed != nil {
		p.Phases = append(p.Phases, *missed)
	}
	return p
}

// oracleSeq replays the history of sequential per-key chains against the expiry model.
func oracleSeq(prop string) Oracle {
	return func(p *plan.Plan, his []plan.Rec, res *plan.Result) {
		m := newSeqModel(p)
		sig := map[string]bool{}
		recs := sortRecs(his)
		var trail = map[string][]string{}
		for i := range recs {
			r := &recs[i]
			switch r.Op.K {
			case "get", "put", "getput", "incr", "decr", "expire", "del":
			default:
				continue
			}
			if isIndeterminate(r.Err) {
				viol(res, "unexpected-error/"+r.Op.K, r.Op.Key, "%s", descRecT(r))
				continue
			}
			id := r.Op.DM + "/" + r.Op.Key
			before := m.describe(r.Op.DM, r.Op.Key)
			trail[id] = append(trail[id], descRecT(r))
			// non-trivial: some candidate state has a deadline within 2 ms of, or before, this op
			t := m.epochMs + r.TInv/1e6
			for _, s := range m.key(r.Op.DM, r.Op.Key).states {
				if s.P && s.Exp != 0 && t >= s.Exp-2 {
					res.Nontrivial = true
					side := "before"
					if t >= s.Exp {
						side = "after"
					}
					sig[r.Op.K+"/"+side] = true
				}
			}
			bad := m.step(r)
			for _, k := range bad {
				class := "expiry-model-mismatch/" + r.Op.K
				if r.Op.NX {
					class += "-nx"
				}
				if r.Op.XX {
					class += "-xx"
				}
				tr := trail[id]
				if len(tr) > 8 {
					tr = tr[len(tr)-8:]
				}
				viol(res, class, k+" via "+r.Op.Tag, "model before:%s; observed %s; recent ops on the key: %v", before, descRecT(r), tr)
			}
		}
		if m.overflow {
			res.Status, res.Reason, res.Violations = "inconclusive", "more than 20000 candidate states for one key", nil
		}
		keys := sortedSet(sig)
		res.NTKey = fmt.Sprint(keys)
	}
}

func sortedSet(m map[string]bool) []string {
	var ks []string
	for k := range m {
		ks = append(ks, k)
	}
	for i := 1; i < len(ks); i++ {
		for j := i; j > 0 && ks[j] < ks[j-1]; j-- {
			ks[j], ks[j-1] = ks[j-1], ks[j]
		}
	}
	return ks
}
