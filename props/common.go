package props

import (
	"fmt"
	"sort"
	"strings"

	"verif/plan"
)

// Rng is the sequential generator used only for plan generation (plans are
// explicit, so the order of draws is part of the generator, not of the run).
type Rng struct{ s uint64 }

func NewRng(seed uint64, salt string) *Rng {
	s := seed ^ 0xD1B54A32D192ED03
	for i := 0; i < len(salt); i++ {
		s = (s ^ uint64(salt[i])) * 0x100000001B3
	}
	return &Rng{s: s}
}

func (r *Rng) U64() uint64 {
	r.s += 0x9E3779B97F4A7C15
	x := r.s
	x = (x ^ (x >> 30)) * 0xBF58476D1CE4E5B9
	x = (x ^ (x >> 27)) * 0x94D049BB133111EB
	return x ^ (x >> 31)
}
func (r *Rng) Intn(n int) int {
	if n <= 0 {
		return 0
	}
	return int(r.U64() % uint64(n))
}
func (r *Rng) Range(lo, hi int) int { return lo + r.Intn(hi-lo+1) }
func (r *Rng) Bool(permille int) bool { return r.Intn(1000) < permille }
func Pick[T any](r *Rng, xs ...T) T  { return xs[r.Intn(len(xs))] }

// Generator builds the plan for run seed of a property and tier.
type Generator func(seed uint64, tier string) *plan.Plan

var Generators = map[string]Generator{}

// Meta describes a property check for evidence and the manifest.
type Meta struct {
	ID        string
	Level     string // exploration | fault_enumeration
	Rule      string // how cases are generated and what makes one non-trivial / distinct
	Assume    []string
	QuickSec  int // wall budget for runs (excluding build)
	ThoroSec  int
	WallMaxS  int // per-run watchdog
	// Space > 0: the property has a finite configuration space of that size which is enumerated:
	// run i uses seed base*1000003+i and the generator takes configuration (seed % Space).
	Space int
}

var Metas = map[string]*Meta{}

func register(m *Meta, g Generator, o Oracle) {
	Metas[m.ID] = m
	Generators[m.ID] = g
	Oracles[m.ID] = o
}

// base returns a plan skeleton with swarm-style randomised knobs.
func base(prop string, seed uint64, tier string, r *Rng) *plan.Plan {
	p := &plan.Plan{Prop: prop, Seed: seed, Tier: tier, DMap: "dm", Params: map[string]int64{}}
	p.Net.MinLatUs = int64(Pick(r, 1, 20, 100))
	p.Net.MaxLatUs = p.Net.MinLatUs + int64(Pick(r, 0, 50, 400, 2000))
	p.Net.SegmentPermille = uint64(Pick(r, 0, 50, 300))
	p.NumCPU = Pick(r, 1, 2, 4)
	p.Cluster.RoutingPushMs = Pick(r, 200, 1000, 5000)
	p.Cluster.BalancerMs = Pick(r, 100, 500, 2000)
	p.Cluster.JanitorMs = Pick(r, 20, 200, 5000)
	p.Cluster.CompactionMs = Pick(r, 10, 100, 2000)
	p.Cluster.MaxIdleTableMs = Pick(r, 50, 1000, 60000)
	p.Cluster.EvictWorkers = 1
	p.MaxSteps = 3_000_000
	return p
}

func yields(p *plan.Plan, r *Rng) {
	switch r.Intn(3) {
	case 0:
		p.Yield = plan.YieldSpec{}
	case 1:
		p.Yield = plan.YieldSpec{ArmPermille: 50, ParkPermille: uint64(Pick(r, 100, 500)), MaxUs: int64(Pick(r, 50, 500, 2000))}
	default:
		p.Yield = plan.YieldSpec{ArmPermille: 300, ParkPermille: uint64(Pick(r, 50, 300)), MaxUs: int64(Pick(r, 50, 500, 2000))}
	}
}

// clientKinds draws an entry point for client id among the first n members.
func entry(r *Rng, id, members int) plan.Script {
	switch r.Intn(4) {
	case 0:
		return plan.Script{ID: id, Kind: "cc"}
	case 1:
		return plan.Script{ID: id, Kind: "raw", M: r.Intn(members)}
	default:
		return plan.Script{ID: id, Kind: "emb", M: r.Intn(members)}
	}
}

func overlaps(a, b *plan.Rec) bool { return a.Inv < b.Ret && b.Inv < a.Ret }

func isIndeterminate(err string) bool {
	return len(err) >= 6 && err[:6] == "other:" || err == plan.ETimeout || err == plan.EServerGone ||
		err == plan.EWriteQ || err == plan.EReadQ || err == plan.EClusterQ
}

func viol(res *plan.Result, class, subject, format string, a ...any) {
	res.Violations = append(res.Violations, plan.Violation{Class: class, Subject: subject, Detail: fmt.Sprintf(format, a...)})
}

func sortRecs(h []plan.Rec) []plan.Rec {
	out := append([]plan.Rec(nil), h...)
	sort.SliceStable(out, func(i, j int) bool { return out[i].Inv < out[j].Inv })
	return out
}

// stormTag marks a failed stabilisation during which the members kept opening connections to each
// other at a rate no quiet cluster has (the harness appends member_dials_last_10s=<n> to the
// error): requests bounce between members whose routing tables disagree and, with go-redis'
// retries, keep every connection pool exhausted so that the routing push itself fails (known
// finding "forwarding-storm"). Any other failed stabilisation carries no tag.
func stormTag(err string) string {
	const key = "member_dials_last_10s="
	i := strings.Index(err, key)
	if i < 0 {
		return ""
	}
	n := 0
	fmt.Sscanf(err[i+len(key):], "%d", &n)
	if n >= 50 {
		return " forwarding-storm"
	}
	return ""
}

// bootTag marks a failed stabilisation in which a member still had no routing table at all when
// the bound ran out (known finding "member-not-bootstrapped": its first push was rejected and the
// coordinator's next table computation stalls on probing it).
func bootTag(err string) string {
	if strings.Contains(err, "routing not initialised") {
		return " member-not-bootstrapped"
	}
	return ""
}

func fpKey(res *plan.Result) string { return fmt.Sprintf("%x", res.Fingerprint) }

// partitionsFor draws a partition count that the consistent-hash library accepts
// for up to maxMembers members (it panics when partitions < members: integer
// division makes the average load 0; a configuration limit, not a property).
func partitionsFor(r *Rng, maxMembers int) uint64 {
	opts := []int{}
	for _, c := range []int{1, 3, 7, 13, 23} {
		if c >= maxMembers {
			opts = append(opts, c)
		}
	}
	return uint64(opts[r.Intn(len(opts))])
}

// cfgTag marks the subject of a violation with the configuration facts that known findings are keyed on.
func cfgTag(p *plan.Plan) string {
	if p.Cluster.ReadRepair && p.Cluster.ReplicaCount > 1 {
		return " rr=true"
	}
	return ""
}
