package props

import (
	"fmt"

	"verif/plan"
)

func init() {
	register(&Meta{ID: "C04", Level: "exploration", QuickSec: 40, ThoroSec: 900, WallMaxS: 120,
		Rule: "each run = seeded plan: stable cluster (2-4 members, R 2-3, tiny to large tables), 1-3 keys, per key a sequential chain of 5-25 mutating ops (Put with every option combination, Expire, GetPut, Incr/Decr/IncrByFloat, Delete, Lock/Unlock/Lease, waits that let TTLs expire and background eviction/compaction run) issued from random entry points, with concurrent chains on other keys of the same DMap; after every acknowledged op all stored copies are read with DM.GETENTRY [RC] on every member and compared; non-trivial = at least one backup copy compared after a mutating op; distinct = (op kind sequence, options) signatures",
		Assume: []string{"membership stable; synchronous replication", "DM.GETENTRY hides expired entries, so 'absent' means absent-or-expired on both sides"},
	}, genC04, oracleC04)
}

func genC04(seed uint64, tier string) *plan.Plan {
	r := NewRng(seed, "C04")
	p := base("C04", seed, tier, r)
	n := r.Range(2, 4)
	p.Cluster.Members = n
	p.Cluster.ReplicaCount = r.Range(2, min(3, n))
	p.Cluster.Partitions = partitionsFor(r, n)
	p.Cluster.TableSize = Pick(r, 256, 512, 2048, 1<<20)
	p.Cluster.ReadRepair = false
	yields(p, r)
	nchains := r.Range(1, 3)
	ph := plan.Phase{Name: "chains", Yields: true}
	vn := 0
	for c := 1; c <= nchains; c++ {
		key := fmt.Sprintf("k%d", c)
		// one controller script per chain: ops are issued through per-op entry clients (IDs derive from the chain)
		sc := plan.Script{ID: c, Kind: "ctl"}
		nops := r.Range(5, 25)
		numeric := r.Bool(300)
		lockIdx := -1
		for i := 0; i < nops; i++ {
			op := plan.Op{Key: key}
			x := r.Intn(100)
			switch {
			case numeric && x < 50:
				op.K = Pick(r, "incr", "decr", "incrf")
				op.Delta = int64(r.Range(1, 20))
				op.FDelta = float64(r.Range(-8, 8)) * 0.5
			case x < 40:
				op.K = "put"
				vn++
				op.Val = fmt.Sprintf("v%d.%d", c, vn)
				if numeric {
					op.Val = fmt.Sprint(r.Range(-30, 30))
				}
				switch r.Intn(6) {
				case 0:
					op.NX = true
				case 1:
					op.XX = true
				}
				switch r.Intn(7) {
				case 0:
					op.EX = int64(r.Range(1, 3)) * 1000
				case 1:
					op.PX = int64(r.Range(5, 3000))
				case 2:
					op.EXAT = int64(r.Range(1, 3)) * 1000
				case 3:
					op.PXAT = int64(r.Range(5, 3000))
				}
			case x < 52:
				op.K = "expire"
				op.Dur = int64(r.Range(5, 3000))
			case x < 62:
				op.K = "getput"
				vn++
				op.Val = fmt.Sprintf("g%d.%d", c, vn)
			case x < 74:
				op.K = "del"
			case x < 82:
				op.K = "ctl.sleep"
				op.Dur = int64(Pick(r, 3, 50, 1500, 4000))
			case x < 90 && lockIdx < 0 && !numeric:
				// locks live in the same DMap under their own key
				op.K, op.Key = "lock", key+"-lock"
				op.Dur = int64(Pick(r, 0, 0, 50, 2000))
				op.Dur2 = 20
				lockIdx = len(sc.Ops)
			case x < 95 && lockIdx >= 0:
				op.K, op.Key, op.Ref = Pick(r, "unlock", "lease"), key+"-lock", lockIdx
				if op.K == "lease" {
					op.Dur = int64(r.Range(10, 2000))
				} else {
					defer func() {}()
				}
				if op.K == "unlock" {
					lockIdx = -1
				}
			default:
				op.K = "get"
			}
			// entry point of this op
			op.Tag = Pick(r, "emb", "emb", "cc", "raw")
			op.M = r.Intn(n)
			if op.K == "lock" || op.K == "unlock" || op.K == "lease" {
				// a lock context lives in one client: keep lock ops of a chain on one entry
				op.Tag, op.M = "emb", c%n
			}
			sc.Ops = append(sc.Ops, op)
		}
		ph.Clients = append(ph.Clients, sc)
	}
	if r.Bool(500) {
		// filler traffic on other keys of the DMap: fragments grow to several tables, overwritten
		// versions become garbage and compaction moves live entries between tables on every copy
		fl := plan.Script{ID: 9, Kind: "cc"}
		for i, nf := 0, r.Range(30, 150); i < nf; i++ {
			vn++
			fl.Ops = append(fl.Ops, plan.Op{K: "put", Key: fmt.Sprintf("f%d", r.Intn(24)), Val: fmt.Sprintf("fill-%d-%s", vn, "xxxxxxxxxxxxxxxxxxxxxxxx"[:r.Intn(24)]), D: int64(Pick(r, 0, 200, 5000))})
		}
		ph.Clients = append(ph.Clients, fl)
	}
	p.Params["probe_after_each"] = 1
	p.Phases = []plan.Phase{ph}
	// once the chains are done and background work (compaction, eviction) has had time to run, the
	// copies are compared once more
	settle := plan.Script{ID: 42, Kind: "ctl", Ops: []plan.Op{{K: "ctl.sleep", Dur: int64(Pick(r, 100, 600, 2500))}}}
	for c := 1; c <= nchains; c++ {
		settle.Ops = append(settle.Ops, plan.Op{K: "ctl.copies", Key: fmt.Sprintf("k%d", c), Tag: "settled"})
	}
	p.Phases = append(p.Phases, plan.Phase{Name: "settled-census", Clients: []plan.Script{settle}})
	// Bursts: several clients work on the SAME key concurrently (atomic operations queue on the
	// owner's key lock while plain writes overtake them); the copies are compared once everything
	// has been acknowledged. One census per burst, 1-3 bursts.
	for b, nb := 0, r.Range(0, 3); b < nb; b++ {
		key := fmt.Sprintf("b%d", b)
		burst := plan.Phase{Name: "burst", Yields: true}
		burst.Clients = append(burst.Clients, plan.Script{ID: 40, Kind: "ctl", Ops: []plan.Op{{K: "put", Key: key, Val: fmt.Sprint(r.Range(0, 50)), Tag: "cc"}}})
		nc := r.Range(2, 6)
		ops := plan.Phase{Name: "burst", Yields: true}
		for c := 0; c < nc; c++ {
			sc := entry(r, 50+c, n)
			for i, no := 0, r.Range(1, 5); i < no; i++ {
				op := plan.Op{Key: key, D: int64(Pick(r, 0, 0, 50, 600))}
				switch x := r.Intn(100); {
				case x < 40:
					op.K, op.Delta = Pick(r, "incr", "decr"), int64(r.Range(1, 9))
				case x < 70:
					op.K, op.Val = "put", fmt.Sprint(r.Range(100, 999))
					if r.Bool(250) {
						op.PX = int64(r.Range(500, 5000))
					}
				case x < 85:
					op.K, op.Val = "getput", fmt.Sprint(r.Range(1000, 9999))
				case x < 93:
					op.K, op.Dur = "expire", int64(r.Range(500, 5000))
				default:
					op.K = "del"
				}
				sc.Ops = append(sc.Ops, op)
			}
			ops.Clients = append(ops.Clients, sc)
		}
		census := plan.Phase{Name: "burst-census", Clients: []plan.Script{{ID: 41, Kind: "ctl", Ops: []plan.Op{{K: "ctl.copies", Key: key, Tag: "burst"}}}}}
		p.Phases = append(p.Phases, burst, ops, census)
	}
	return p
}

func isMutating(k string) bool {
	switch k {
	case "put", "del", "expire", "getput", "incr", "decr", "incrf", "lock", "unlock", "lease":
		return true
	}
	return false
}

// oracleC04: every probe (taken right after an acknowledged op of the same chain) must show identical copies.
func oracleC04(p *plan.Plan, his []plan.Rec, res *plan.Result) {
	sig := ""
	for i := range his {
		r := &his[i]
		if r.Op.K != "ctl.copies" {
			if isMutating(r.Op.K) {
				sig += r.Op.K[:2]
				if r.Op.NX {
					sig += "n"
				}
				if r.Op.XX {
					sig += "x"
				}
				if r.Op.EX+r.Op.PX+r.Op.EXAT+r.Op.PXAT > 0 {
					sig += "t"
				}
			}
			continue
		}
		if r.Op.Tag == "burst" {
			r.Info = "burst (concurrent operations on the key)"
		}
		if r.Op.Tag == "settled" {
			r.Info = "settled (all chains done, background work has run)"
		}
		var prim *plan.Copy
		for j := range r.Copies {
			c := &r.Copies[j]
			if c.Routed == "owner" {
				prim = c
			}
		}
		if prim == nil {
			continue
		}
		if prim.Err != "" {
			viol(res, "copy-unreadable", r.Op.Key, "primary copy unreadable: %+v after %s", *prim, r.Info)
			continue
		}
		for j := range r.Copies {
			c := &r.Copies[j]
			switch c.Routed {
			case "backup":
				res.Nontrivial = true
				res.Counters["oracle.backup_copies_compared"]++
				if c.Err != "" {
					viol(res, "copy-unreadable", r.Op.Key, "backup copy unreadable: %+v after %s", *c, r.Info)
					continue
				}
				if c.Found != prim.Found {
					// the copies are read one after the other: a copy whose deadline falls before the end
					// of the census may have been read before it and the other copy after it
					seen := prim
					if c.Found {
						seen = c
					}
					if seen.TTL != 0 && seen.TTL <= bubbleEpochMs+r.TRet/1e6+1 {
						res.Counters["oracle.expired_during_census"]++
						continue
					}
					viol(res, "backup-presence-differs/"+opClass(r.Info), r.Op.Key, "after %s: primary(m%d) found=%v val=%q ttl=%d ts=%d, backup(m%d) found=%v val=%q ttl=%d ts=%d",
						r.Info, prim.Member, prim.Found, prim.Val, prim.TTL, prim.TS, c.Member, c.Found, c.Val, c.TTL, c.TS)
				} else if c.Found && (c.Val != prim.Val || c.TTL != prim.TTL || c.TS != prim.TS) {
					what := "value"
					if c.Val == prim.Val {
						what = "ttl"
						if c.TTL == prim.TTL {
							what = "timestamp"
						}
					}
					viol(res, "backup-"+what+"-differs/"+opClass(r.Info), r.Op.Key, "after %s: primary(m%d) val=%q ttl=%d ts=%d, backup(m%d) val=%q ttl=%d ts=%d",
						r.Info, prim.Member, prim.Val, prim.TTL, prim.TS, c.Member, c.Val, c.TTL, c.TS)
				}
			case "owner":
			default:
				if c.Found {
					viol(res, "stray-copy", r.Op.Key, "after %s: member m%d holds a %s copy although it is neither owner nor backup: %+v", r.Info, c.Member, c.Kind, *c)
				}
			}
		}
	}
	res.NTKey = sig
}

// opClass extracts the op kind from a probe's Info ("after <kind> ...").
func opClass(info string) string {
	for i := 0; i < len(info); i++ {
		if info[i] == ' ' || info[i] == '(' {
			return info[:i]
		}
	}
	return info
}
