package props

import (
	"fmt"

	"verif/plan"
)

func init() {
	register(&Meta{ID: "C06", Level: "exploration", QuickSec: 40, ThoroSec: 900, WallMaxS: 120,
		Rule: "each run = seeded plan: stable cluster of 2-4 members, R 2-3, read-repair on/off; for 1-4 keys a sequence of 4-14 steps creates conflicting copies with chosen timestamps relative to the newest existing copy (older, equal = tie, newer, far newer): entries planted on a chosen backup with the replication command DM.PUTENTRY, backup copies removed with DM.DELENTRY RC, the owner's own copy removed with DM.DELENTRY (an owner that took the partition over without its data), ordinary Puts while one backup is cut off (so it stays stale), fragment packs (the bytes fragment.Move sends) delivered with INTERNAL.NODE.MOVEFRAGMENT to the primary or a backup owner in seeded order and 1-3 times each; a census of all copies (DM.GETENTRY [RC] on every member) is taken before and after every step and around every Get; oracle: a Get returns a copy with the maximal timestamp of the census (any of the tied ones); after a merge the receiving copy is the newest of (previous copy, delivered entry) whatever the order and repetition; with read-repair one Get makes the owner's copy and every backup copy equal to the winner, without read-repair a Get changes nothing; non-trivial = a Get or merge ran while at least two copies carried different timestamps; distinct = step-kind sequences x schedule fingerprints",
		Assume: []string{"membership stable; copies on previous owners are not constructed (they arise in C03's hand-overs)", "per-member clock skew does not exist in the simulator: timestamp conflicts are constructed with the replication commands instead"},
	}, genC06, oracleC06)
}

func genC06(seed uint64, tier string) *plan.Plan {
	r := NewRng(seed, "C06")
	p := base("C06", seed, tier, r)
	n := r.Range(2, 4)
	p.Cluster.Members = n
	p.Cluster.ReplicaCount = r.Range(2, min(3, n))
	p.Cluster.Partitions = partitionsFor(r, n)
	p.Cluster.ReadRepair = r.Bool(500)
	p.Cluster.ClientReadTimeoutMs = 300
	p.Cluster.JanitorMs = 60000
	p.Yield = plan.YieldSpec{}
	sc := plan.Script{ID: 1, Kind: "ctl"}
	census := func(k string) { sc.Ops = append(sc.Ops, plan.Op{K: "ctl.copies", Key: k}) }
	vn := 0
	sig := ""
	for ki, nk := 0, r.Range(1, 4); ki < nk; ki++ {
		k := fmt.Sprintf("c%d", ki)
		sc.Ops = append(sc.Ops, plan.Op{K: "put", Key: k, Val: fmt.Sprintf("base%d", ki), Tag: "cc"})
		for s, ns := 0, r.Range(4, 14); s < ns; s++ {
			vn++
			val := fmt.Sprintf("v%d", vn)
			delta := int64(Pick(r, -5_000_000_000, -1000, -1, 0, 0, 1, 1000, 7_000_000_000))
			census(k)
			switch x := r.Intn(100); {
			case x < 22:
				sc.Ops = append(sc.Ops, plan.Op{K: "ctl.plant", Tag: "backup", Key: k, Val: val, Delta: delta, M: r.Intn(3)})
				sig += "b"
			case x < 27:
				sc.Ops = append(sc.Ops, plan.Op{K: "ctl.plant", Tag: "delbackup", Key: k, M: r.Intn(3)})
				sig += "d"
			case x < 33:
				sc.Ops = append(sc.Ops, plan.Op{K: "ctl.plant", Tag: "delprimary", Key: k})
				sig += "D"
			case x < 49:
				sc.Ops = append(sc.Ops, plan.Op{K: "ctl.plant", Tag: "merge", Key: k, Val: val, Delta: delta, Count: r.Range(1, 3)})
				sig += "m"
			case x < 58:
				sc.Ops = append(sc.Ops, plan.Op{K: "ctl.plant", Tag: "mergebackup", Key: k, Val: val, Delta: delta, Count: r.Range(1, 2), M: r.Intn(3)})
				sig += "M"
			case x < 70:
				// an ordinary Put that one backup misses
				sc.Ops = append(sc.Ops, plan.Op{K: "ctl.cut_backups", Key: k, Count: 1, Flag: r.Bool(500)},
					plan.Op{K: "put", Key: k, Val: val, Tag: "embo"},
					plan.Op{K: "ctl.heal_all"}, plan.Op{K: "ctl.sleep", Dur: 1500})
				sig += "p"
			default:
				sc.Ops = append(sc.Ops, plan.Op{K: "get", Key: k, Tag: Pick(r, "embo", "embn", "cc")})
				sig += "g"
			}
			census(k)
		}
		census(k)
		sc.Ops = append(sc.Ops, plan.Op{K: "get", Key: k, Tag: "cc"})
		census(k)
	}
	p.Phases = []plan.Phase{{Name: "conflicts", Clients: []plan.Script{sc}}}
	// Concurrent deliveries into a partition whose fragment does not exist yet on the receiver: two
	// to three fragment packs with different timestamps for one key of an untouched DMap arrive at
	// the same time (with many short pauses at the scheduling points); the newest must survive.
	for f, nf := 0, r.Range(0, 3); f < nf; f++ {
		dm := fmt.Sprintf("race%d", f)
		race := plan.Phase{Name: "race", Yields: true}
		for c, nc := 0, r.Range(2, 3); c < nc; c++ {
			vn++
			race.Clients = append(race.Clients, plan.Script{ID: 10 + c, Kind: "ctl", Ops: []plan.Op{
				{K: "ctl.plant", Tag: "merge", DM: dm, Key: "rk", Val: fmt.Sprintf("v%d", vn), Delta: int64((c+1)*1000*Pick(r, -1, 1, 3)) + int64(c), Count: 1, D: int64(Pick(r, 0, 0, 20, 100))},
			}})
		}
		p.Phases = append(p.Phases, race, plan.Phase{Name: "race-census", Clients: []plan.Script{{ID: 1, Kind: "ctl", Ops: []plan.Op{{K: "ctl.copies", DM: dm, Key: "rk", Tag: "racecensus"}}}}})
	}
	if len(p.Phases) > 1 {
		p.Yield = plan.YieldSpec{ArmPermille: 700, ParkPermille: 500, MaxUs: int64(Pick(r, 100, 400, 1000))}
	}
	p.Variant = fmt.Sprintf("rr=%v/R%d/N%d/%s", p.Cluster.ReadRepair, p.Cluster.ReplicaCount, n, sig)
	return p
}

func oracleC06(p *plan.Plan, his []plan.Rec, res *plan.Result) {
	recs := sortRecs(his)
	type cp struct {
		val string
		ts  int64
	}
	snapshot := func(r *plan.Rec) map[string]cp { // "m<idx>/<kind>" -> copy (only routed copies)
		out := map[string]cp{}
		for _, c := range r.Copies {
			if c.Found && (c.Routed == "owner" || c.Routed == "backup") {
				out[fmt.Sprintf("m%d/%s", c.Member, c.Kind)] = cp{c.Val, c.TS}
			}
		}
		return out
	}
	routed := func(r *plan.Rec) map[string]bool {
		out := map[string]bool{}
		for _, c := range r.Copies {
			if c.Routed == "owner" || c.Routed == "backup" {
				out[fmt.Sprintf("m%d/%s", c.Member, c.Kind)] = true
			}
		}
		return out
	}
	ownerKey := func(r *plan.Rec) string {
		for _, c := range r.Copies {
			if c.Routed == "owner" {
				return fmt.Sprintf("m%d/primary", c.Member)
			}
		}
		return ""
	}
	for i := 1; i+1 < len(recs); i++ {
		op := &recs[i]
		pre, post := &recs[i-1], &recs[i+1]
		if op.Op.K != "get" && op.Op.K != "ctl.plant" {
			continue
		}
		if pre.Op.K != "ctl.copies" || post.Op.K != "ctl.copies" || pre.Op.Key != op.Op.Key {
			continue
		}
		before, after := snapshot(pre), snapshot(post)
		distinct := map[int64]bool{}
		var maxTS int64
		for _, c := range before {
			distinct[c.ts] = true
			if c.ts > maxTS {
				maxTS = c.ts
			}
		}
		rr := ""
		if p.Cluster.ReadRepair {
			rr = " rr=true"
		}
		switch {
		case op.Op.K == "get":
			if len(distinct) >= 2 {
				res.Nontrivial = true
			}
			if len(before) == 0 {
				if op.Err != plan.ENotFound {
					viol(res, "get-without-copies", op.Op.Key, "no copy exists, Get returned %s", descRecT(op))
				}
				continue
			}
			if op.Err != "" {
				viol(res, "get-failed-with-copies", errClass(op.Err), "copies %v exist, %s", before, descRecT(op))
				continue
			}
			ok := false
			for _, c := range before {
				if c.ts == maxTS && c.val == op.Val {
					ok = true
				}
			}
			if op.TS != maxTS || !ok {
				viol(res, "get-not-newest", op.Op.Key+rr, "Get returned %q (ts %d); the copies are %v, the newest timestamp is %d", op.Val, op.TS, before, maxTS)
			}
			if p.Cluster.ReadRepair {
				// the owner's own copy and every backup copy equal the winner afterwards
				for k := range routed(post) {
					c, has := after[k]
					if _, hadBefore := before[k]; !hadBefore && k != ownerKey(post) {
						// a backup that holds no copy at all is not a "stale copy": olric does not fill it
						continue
					}
					if !has || c.ts != maxTS {
						viol(res, "read-repair-incomplete", k[len(k)-7:], "after one Get with read-repair %s holds %+v (present=%v); the winner has ts %d (%q); before: %v", k, c, has, maxTS, op.Val, before)
					}
				}
			} else {
				for k, c := range before {
					if after[k] != c {
						viol(res, "get-modified-copies", op.Op.Key, "read-repair is off but %s changed from %+v to %+v during a Get", k, c, after[k])
					}
				}
			}
		case op.Op.Tag == "merge" || op.Op.Tag == "mergebackup":
			if op.Err == "skipped" {
				continue
			}
			if op.Err != "" {
				viol(res, "merge-failed", errClass(op.Err), "%s: %s", op.Op.Tag, op.Err)
				continue
			}
			kind := "primary"
			if op.Op.Tag == "mergebackup" {
				kind = "backup"
			}
			key := fmt.Sprintf("m%d/%s", op.Int, kind)
			prev, had := before[key]
			got, has := after[key]
			if had && prev.ts != op.TS {
				res.Nontrivial = true
			}
			want := cp{op.Op.Val, op.TS}
			tie := had && prev.ts == op.TS
			if had && prev.ts > op.TS {
				want = prev
			}
			if !has || (got != want && !(tie && got == prev)) {
				viol(res, "merge-not-newest", kind, "fragment with %s=%q ts %d delivered %d time(s) to %s which held %+v (present=%v): it holds %+v afterwards (present=%v), want %+v", op.Op.Key, op.Op.Val, op.TS, op.N, key, prev, had, got, has, want)
			}
			for k, c := range before {
				if k != key && after[k] != c {
					viol(res, "merge-touched-other-copy", kind, "delivering a fragment to %s changed %s from %+v to %+v", key, k, c, after[k])
				}
			}
		}
	}
	// concurrent deliveries: the primary copy is the delivered entry with the newest timestamp
	for i := range recs {
		c := &recs[i]
		if c.Op.K != "ctl.copies" || c.Op.Tag != "racecensus" {
			continue
		}
		var best *plan.Rec
		for j := range recs {
			d := &recs[j]
			if d.Op.K == "ctl.plant" && d.Op.DM == c.Op.DM && d.Op.Key == c.Op.Key && d.Err == "" && (best == nil || d.TS > best.TS) {
				best = d
			}
		}
		if best == nil {
			continue
		}
		res.Nontrivial = true
		for _, cp := range c.Copies {
			if cp.Kind == "primary" && cp.Routed == "owner" && (!cp.Found || cp.TS != best.TS) {
				viol(res, "merge-not-newest", "concurrent", "fragment packs for %s/%s were delivered concurrently to a member without a fragment; the newest has ts %d (%q) but the owner holds %+v", c.Op.DM, c.Op.Key, best.TS, best.Op.Val, cp)
			}
		}
	}
	_ = ownerKey
	res.NTKey = p.Variant + "/" + fpKey(res)
}
