package props

import (
	"fmt"
	"strings"

	"verif/plan"
)

// c05Config is one point of the enumerated configuration space.
type c05Config struct {
	Kind     string // "rw" (read/write quorum) or "mcq" (member count quorum)
	R, W, RQ int
	N        int
	Cut      int  // backups unreachable from the primary owner
	Last     bool // cut the last backups of the list instead of the first
	Mode     int  // 0 refuse, 1 black hole
	MCQ      int
	Isolated int // members partitioned away (mcq kind)
	Parts    int // partition count (leave kind; 0 = small default)
}

func (c c05Config) String() string {
	if c.Kind == "leave" {
		return fmt.Sprintf("leave R=%d W=%d N=%d mode=%d parts=%d", c.R, c.W, c.N, c.Mode, c.Parts)
	}
	if c.Kind == "mcq" {
		return fmt.Sprintf("mcq N=%d MCQ=%d isolated=%d", c.N, c.MCQ, c.Isolated)
	}
	return fmt.Sprintf("rw R=%d W=%d RQ=%d N=%d cut=%d last=%v mode=%d", c.R, c.W, c.RQ, c.N, c.Cut, c.Last, c.Mode)
}

var c05Space = func() []c05Config {
	var out []c05Config
	for R := 1; R <= 3; R++ {
		for W := 1; W <= R; W++ {
			for RQ := 1; RQ <= R; RQ++ {
				for _, N := range []int{R, R + 1} {
					for cut := 0; cut <= R-1; cut++ {
						if cut == 0 {
							out = append(out, c05Config{Kind: "rw", R: R, W: W, RQ: RQ, N: N})
							continue
						}
						for mode := 0; mode <= 1; mode++ {
							out = append(out, c05Config{Kind: "rw", R: R, W: W, RQ: RQ, N: N, Cut: cut, Mode: mode})
							if cut < R-1 {
								out = append(out, c05Config{Kind: "rw", R: R, W: W, RQ: RQ, N: N, Cut: cut, Mode: mode, Last: true})
							}
						}
					}
				}
			}
		}
	}
	for N := 2; N <= 4; N++ {
		for mcq := 1; mcq <= N; mcq++ {
			for iso := 1; iso <= N-1; iso++ {
				out = append(out, c05Config{Kind: "mcq", N: N, MCQ: mcq, Isolated: iso, R: 1, W: 1, RQ: 1})
			}
		}
	}
	// a backup owner departs (Mode 0: graceful leave, 1: crash) while Puts keep arriving on the
	// coordinator: a departed member is an unreachable backup owner, too
	for _, rw := range [][2]int{{2, 2}, {3, 3}, {3, 2}} {
		for _, N := range []int{rw[0], rw[0] + 1} {
			out = append(out, c05Config{Kind: "leave", R: rw[0], W: rw[1], RQ: 1, N: N, Mode: 0})
			// after a crash the table is recomputed seconds later, partition by partition with a round
			// trip each: more partitions = a longer time in which the old and the new owner lists coexist
			for _, parts := range []int{0, 71, 271} {
				out = append(out, c05Config{Kind: "leave", R: rw[0], W: rw[1], RQ: 1, N: N, Mode: 1, Parts: parts})
			}
		}
	}
	return out
}()

func init() {
	register(&Meta{ID: "C05", Level: "fault_enumeration", QuickSec: 75, ThoroSec: 1200, WallMaxS: 180, Space: len(c05Space),
		Rule: fmt.Sprintf("the configuration x fault space is finite and enumerated completely (%d points, run i takes point i mod %d): all (R, W, RQ) with 1<=W,RQ<=R<=3, N in {R, R+1}, every number 0..R-1 of backup owners made RESP-unreachable from the primary owner (refused or black-holed, first or last of the backup list) while gossip keeps them in the member list; and N 2-4 x MemberCountQuorum 1..N x 1..N-1 members partitioned away. On top of each point the seed varies latencies, schedules and the entry path. Oracle: Put acknowledged iff reachable copies >= W (else the write-quorum error), copies counted after heal; Get returns the value iff >= RQ copies reachable (else the read-quorum error); a member that sees fewer than MCQ members answers RESP requests and NewDMap with the cluster-quorum error and applies nothing; non-trivial = the point's fault actually fired (or the fault-free point ran); distinct = configuration points", len(c05Space), len(c05Space)),
		Assume: []string{"'unreachable' is a RESP-class link fault between the primary owner and the backup; memberlist traffic is unaffected", "member-to-member client read timeout 300 ms so that black-holed replication attempts end within simulated seconds"},
	}, genC05, oracleC05)
}

func genC05(seed uint64, tier string) *plan.Plan {
	cfg := c05Space[seed%uint64(len(c05Space))]
	r := NewRng(seed, "C05")
	p := base("C05", seed, tier, r)
	p.Cluster.Members = cfg.N
	p.Cluster.ReplicaCount, p.Cluster.WriteQuorum, p.Cluster.ReadQuorum = cfg.R, cfg.W, cfg.RQ
	p.Cluster.Partitions = partitionsFor(r, cfg.N)
	p.Cluster.ClientReadTimeoutMs = 300
	p.Cluster.JanitorMs = 60000
	p.Yield = plan.YieldSpec{}
	p.Variant = cfg.String()
	p.Params["space_index"] = int64(seed % uint64(len(c05Space)))
	sc := plan.Script{ID: 1, Kind: "ctl"}
	if cfg.Kind == "leave" {
		p.Cluster.ClientReadTimeoutMs = 1000
		p.Cluster.RoutingPushMs = Pick(r, 1000, 5000)
		p.Params["W"] = int64(cfg.W)
		if cfg.Parts > 0 {
			p.Cluster.Partitions = uint64(cfg.Parts)
		}
		load := plan.Script{ID: 1, Kind: "ctl"}
		for i := 0; i < 12; i++ {
			load.Ops = append(load.Ops, plan.Op{K: "put", Key: fmt.Sprintf("b%d", i), Val: "b", Tag: "emb", M: 0})
		}
		ev := plan.Script{ID: 9, Kind: "ctl"}
		ev.Ops = append(ev.Ops, plan.Op{K: "ctl.sleep", Dur: int64(Pick(r, 50, 300))})
		victim := r.Range(1, cfg.N-1)
		if cfg.Mode == 0 {
			ev.Ops = append(ev.Ops, plan.Op{K: "ctl.leave", M: victim})
		} else {
			ev.Ops = append(ev.Ops, plan.Op{K: "ctl.crash", M: victim, Flag: r.Bool(500)})
		}
		work := plan.Phase{Name: "leave", Clients: []plan.Script{ev}}
		for w := 0; w < 4; w++ {
			ws := plan.Script{ID: 2 + w, Kind: "ctl"}
			for i, n := 0, r.Range(150, 400); i < n; i++ {
				k := fmt.Sprintf("w%d-%d", w, i)
				// every Put writes a fresh key on the coordinator (member 0); the copies are counted at once
				ws.Ops = append(ws.Ops, plan.Op{K: "put", Key: k, Val: "v-" + k, Tag: "emb", M: 0, D: int64(Pick(r, 0, 0, 0, 2000, 40000, 150000))},
					plan.Op{K: "ctl.copies", Key: k, Tag: "after-put"})
			}
			work.Clients = append(work.Clients, ws)
		}
		p.Phases = []plan.Phase{{Name: "load", Clients: []plan.Script{load}}, work}
		return p
	}
	if cfg.Kind == "rw" {
		path := Pick(r, "embo", "embo", "cc")
		key := fmt.Sprintf("q%d", r.Intn(50))
		p.Params["R"], p.Params["W"], p.Params["RQ"], p.Params["cut"] = int64(cfg.R), int64(cfg.W), int64(cfg.RQ), int64(cfg.Cut)
		sc.Ops = append(sc.Ops,
			plan.Op{K: "put", Key: key, Val: "v0", Tag: path, M: 0},
			plan.Op{K: "ctl.copies", Key: key, Tag: "baseline"},
			plan.Op{K: "ctl.cut_backups", Key: key, Count: cfg.Cut, Flag: cfg.Last, Dur: int64(cfg.Mode)},
			plan.Op{K: "put", Key: key, Val: "v1", Tag: path, M: 0, D: int64(Pick(r, 0, 100, 5000))},
			plan.Op{K: "get", Key: key, Tag: path, M: 0},
			// census through the controller's own connections, while the cut is still in place
			// (a black-holed replication message is delivered after the heal, like a TCP retransmission)
			plan.Op{K: "ctl.copies", Key: key, Tag: "after"},
			plan.Op{K: "ctl.heal_all"},
			plan.Op{K: "ctl.sleep", Dur: 2000},
			plan.Op{K: "get", Key: key, Tag: path, M: 0},
		)
	} else {
		p.Cluster.MemberCountQuorum = cfg.MCQ
		p.Cluster.ReplicaCount, p.Cluster.WriteQuorum, p.Cluster.ReadQuorum = 1, 1, 1
		p.Params["MCQ"], p.Params["isolated"], p.Params["N"] = int64(cfg.MCQ), int64(cfg.Isolated), int64(cfg.N)
		var a, b []int
		for i := 0; i < cfg.N; i++ {
			if i < cfg.N-cfg.Isolated {
				a = append(a, i)
			} else {
				b = append(b, i)
			}
		}
		groups := [][]int{a}
		// every isolated member is alone
		for _, m := range b {
			groups = append(groups, []int{m})
		}
		sc.Ops = append(sc.Ops, plan.Op{K: "put", Key: "base", Val: "v0", Tag: "emb", M: 0})
		sc.Ops = append(sc.Ops, plan.Op{K: "ctl.partition", Groups: groups})
		// wait until memberlist on both sides has noticed
		sc.Ops = append(sc.Ops, plan.Op{K: "ctl.sleep", Dur: 45000})
		for i := 0; i < cfg.N; i++ {
			sc.Ops = append(sc.Ops,
				plan.Op{K: "ctl.members", M: i},
				plan.Op{K: "put", Key: fmt.Sprintf("m%dk", i), Val: "w", Tag: "raw", M: i},
				plan.Op{K: "cmd", Args: []string{"DM.GET", "dm", "base"}, Tag: "raw", M: i},
				plan.Op{K: "cmd", Args: []string{"PING"}, Tag: "raw", M: i},
				plan.Op{K: "ctl.newdmap", DM: "other", M: i},
			)
		}
		sc.Ops = append(sc.Ops, plan.Op{K: "ctl.heal_all"}, plan.Op{K: "ctl.wait_stable", Dur: 120000, Tag: "final"})
		for i := 0; i < cfg.N; i++ {
			sc.Ops = append(sc.Ops, plan.Op{K: "get", Key: fmt.Sprintf("m%dk", i), Tag: "cc"})
		}
	}
	p.Phases = []plan.Phase{{Name: "quorum", Clients: []plan.Script{sc}}}
	return p
}

func oracleC05(p *plan.Plan, his []plan.Rec, res *plan.Result) {
	res.NTKey = fmt.Sprint(p.Params["space_index"])
	recs := sortRecs(his)
	if strings.HasPrefix(p.Variant, "leave") {
		// acknowledged => at least W copies stored, for every Put that started after the member was down
		// (a copy written to the departing member just before it went would no longer be counted)
		W := int(p.Params["W"])
		down := int64(-1)
		for i := range recs {
			if k := recs[i].Op.K; (k == "ctl.leave" || k == "ctl.crash") && recs[i].Err == "" {
				down = recs[i].TRet
			}
		}
		var last *plan.Rec
		for i := range recs {
			r := &recs[i]
			switch {
			case r.Op.K == "put" && strings.HasPrefix(r.Op.Key, "w"):
				last = r
				if r.Err == "" {
					res.Counters["oracle.acknowledged_puts"]++
				} else if r.Err == plan.EWriteQ {
					res.Counters["oracle.write_quorum_errors"]++
				}
			case r.Op.K == "ctl.copies" && last != nil && last.Op.Key == r.Op.Key:
				if last.Err != "" || down < 0 || last.TInv < down {
					continue
				}
				res.Nontrivial = true
				n := 0
				for _, c := range r.Copies {
					if c.Found && c.Val == last.Op.Val {
						n++
					}
				}
				if n < W {
					viol(res, "acknowledged-below-write-quorum", p.Variant, "%s was acknowledged but only %d copies are stored (WriteQuorum %d): %+v", descRecT(last), n, W, r.Copies)
				}
			}
		}
		return
	}
	if strings.HasPrefix(p.Variant, "rw") {
		R, W, RQ, cut := int(p.Params["R"]), int(p.Params["W"]), int(p.Params["RQ"]), int(p.Params["cut"])
		var base, put1, get1, get2, after, cutRec *plan.Rec
		for i := range recs {
			r := &recs[i]
			switch {
			case r.Op.K == "put" && r.Op.Val == "v0":
				base = r
			case r.Op.K == "put" && r.Op.Val == "v1":
				put1 = r
			case r.Op.K == "ctl.cut_backups":
				cutRec = r
			case r.Op.K == "get" && get1 == nil:
				get1 = r
			case r.Op.K == "get":
				get2 = r
			case r.Op.K == "ctl.copies" && r.Op.Tag == "after":
				after = r
			}
		}
		if base == nil || put1 == nil || get1 == nil || after == nil || cutRec == nil {
			res.Status, res.Reason = "inconclusive", "plan did not complete"
			return
		}
		if base.Err != "" {
			viol(res, "healthy-put-failed", p.Variant, "with every copy reachable: %s", descRecT(base))
			return
		}
		backups := cutRec.N
		actualCut := cut
		if actualCut > backups {
			actualCut = backups
		}
		res.Nontrivial = true
		reach := 1 + backups - actualCut // copies the primary owner can write / read
		_ = R
		// --- write quorum
		wantAck := reach >= W
		switch {
		case wantAck && put1.Err != "":
			class := "put-failed-although-quorum-met"
			viol(res, class, fmt.Sprintf("W=%d reachable=%d err=%s", W, reach, errClass(put1.Err)), "%s: %d of %d copies reachable, W=%d: %s (%s)", p.Variant, reach, 1+backups, W, descRecT(put1), cutRec.Info)
		case !wantAck && put1.Err == "":
			viol(res, "put-acknowledged-below-quorum", fmt.Sprintf("W=%d reachable=%d", W, reach), "%s: only %d copies reachable, W=%d, yet %s (%s)", p.Variant, reach, W, descRecT(put1), cutRec.Info)
		case !wantAck && put1.Err != plan.EWriteQ:
			viol(res, "wrong-error-below-write-quorum", fmt.Sprintf("W=%d reachable=%d err=%s", W, reach, errClass(put1.Err)), "%s: want the write-quorum error, got %s (%s)", p.Variant, descRecT(put1), cutRec.Info)
		}
		stored := 0
		for _, c := range after.Copies {
			if c.Found && c.Val == "v1" {
				stored++
			}
		}
		if put1.Err == "" && stored < W {
			viol(res, "acknowledged-with-too-few-copies", fmt.Sprintf("W=%d stored=%d", W, stored), "%s: Put acknowledged but only %d copies hold v1 after heal: %+v", p.Variant, stored, after.Copies)
		}
		if put1.Err == plan.EWriteQ && stored >= W {
			viol(res, "write-quorum-error-with-enough-copies", fmt.Sprintf("W=%d stored=%d", W, stored), "%s: write-quorum error but %d copies hold v1: %+v", p.Variant, stored, after.Copies)
		}
		// --- read quorum (the key exists: v0 was acknowledged with all copies)
		wantVal := reach >= RQ
		switch {
		case wantVal && get1.Err != "":
			viol(res, "get-failed-although-quorum-met", fmt.Sprintf("RQ=%d reachable=%d err=%s", RQ, reach, errClass(get1.Err)), "%s: %d copies reachable, RQ=%d: %s (%s)", p.Variant, reach, RQ, descRecT(get1), cutRec.Info)
		case !wantVal && get1.Err == "":
			viol(res, "get-answered-below-quorum", fmt.Sprintf("RQ=%d reachable=%d", RQ, reach), "%s: only %d copies reachable, RQ=%d, yet %s", p.Variant, reach, RQ, descRecT(get1))
		case !wantVal && get1.Err != plan.EReadQ:
			viol(res, "wrong-error-below-read-quorum", fmt.Sprintf("RQ=%d reachable=%d err=%s", RQ, reach, errClass(get1.Err)), "%s: want the read-quorum error, got %s", p.Variant, descRecT(get1))
		}
		if get1.Err == "" && get1.Val != "v0" && get1.Val != "v1" {
			viol(res, "get-wrong-value", p.Variant, "%s", descRecT(get1))
		}
		if get2 != nil && get2.Err != "" {
			viol(res, "get-failed-after-heal", errClass(get2.Err), "%s: %s", p.Variant, descRecT(get2))
		}
		return
	}
	// ---- member count quorum
	MCQ, iso, N := int(p.Params["MCQ"]), int(p.Params["isolated"]), int(p.Params["N"])
	sees := map[int]int{}
	stableFinal := false
	for i := range recs {
		r := &recs[i]
		if r.Op.K == "ctl.members" {
			sees[r.Op.M] = r.N
		}
		if r.Op.K == "ctl.wait_stable" && r.Err == "" {
			stableFinal = true
		}
	}
	for i := range recs {
		r := &recs[i]
		m := r.Op.M
		side := N - iso
		if m >= N-iso {
			side = 1
		}
		below := side < MCQ
		switch {
		case r.Op.Tag == "raw" && (r.Op.K == "put" || r.Op.K == "cmd"):
			if sees[m] != side {
				res.Status, res.Reason = "inconclusive", fmt.Sprintf("m%d sees %d members, expected %d after the partition", m, sees[m], side)
				return
			}
			res.Nontrivial = true
			what := r.Op.K
			if r.Op.K == "cmd" {
				what = r.Op.Args[0]
			}
			if below && r.Err != plan.EClusterQ {
				viol(res, "request-served-below-member-quorum", what, "%s: m%d sees %d members (< MCQ %d) but answered %s", p.Variant, m, side, MCQ, descRecT(r))
			}
			if !below && r.Err == plan.EClusterQ {
				viol(res, "cluster-quorum-error-with-enough-members", what, "%s: m%d sees %d members (>= MCQ %d) but answered %s", p.Variant, m, side, MCQ, descRecT(r))
			}
		case r.Op.K == "ctl.newdmap":
			if below && r.Err != plan.EClusterQ {
				viol(res, "newdmap-below-member-quorum", errClass(r.Err), "%s: NewDMap on m%d (sees %d < MCQ %d) returned %q", p.Variant, m, side, MCQ, r.Err)
			}
			if !below && r.Err != "" {
				viol(res, "newdmap-failed-with-enough-members", errClass(r.Err), "%s: NewDMap on m%d (sees %d >= MCQ %d) returned %q", p.Variant, m, side, MCQ, r.Err)
			}
		case r.Op.K == "get" && r.Op.Tag == "cc" && stableFinal:
			var idx int
			fmt.Sscanf(r.Op.Key, "m%dk", &idx)
			s := N - iso
			if idx >= N-iso {
				s = 1
			}
			if s < MCQ && r.Err == "" {
				viol(res, "write-applied-below-member-quorum", r.Op.Key, "%s: the Put sent to m%d while it was below the member quorum is visible after heal: %s", p.Variant, idx, descRecT(r))
			}
		}
	}
}

func errClass(e string) string {
	if strings.HasPrefix(e, "other:") {
		switch {
		case strings.Contains(e, "refused"):
			return "connection-refused"
		case strings.Contains(e, "timeout"):
			return "io-timeout"
		case strings.Contains(e, "reset"):
			return "connection-reset"
		}
		return "other"
	}
	if e == "" {
		return "ok"
	}
	return e
}
