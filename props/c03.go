package props

import (
	"fmt"
	"sort"
	"strings"

	"verif/plan"
)

func init() {
	register(&Meta{ID: "C03", Level: "exploration", QuickSec: 60, ThoroSec: 1500, WallMaxS: 240,
		Rule: "each run = seeded plan: 1-3 initial members, R 1-3, small tables (fragments of 1-6 tables), 20-120 keys each owned by one writer that keeps issuing Put/Delete/Get on its keys (so the last acknowledged value is known) while a controller performs 1-4 joins and - after a strict stabilisation so that every key has its backups, R>=2 - leaves, optionally a crash (R>=2) with RESP traffic in flight; reads during the hand-over must return the last acknowledged value; at the end every member must return it, a scan must yield exactly the live keys, DM.GETENTRY on every member must show exactly one primary copy and the backup copies, and no previous owner may remain; non-trivial = operations were executed between a membership event and the next stabilisation; distinct = event-sequence signatures x schedule fingerprints",
		Assume: []string{"member 0 is never stopped (it hosts the embedded/raw entry points); crashes only with R>=2", "stabilisation bound: 60 s + 13 s per partition of simulated time (all members agree on a complete routing table whose owners are all running, unchanged for two routing pushes) - exceeding it is a liveness violation; the property does not demand that emptied or stale previous owners disappear, so that is not asserted"},
	}, genC03, oracleC03)
}

func genC03(seed uint64, tier string) *plan.Plan {
	r := NewRng(seed, "C03")
	p := base("C03", seed, tier, r)
	n0 := r.Range(1, 3)
	R := r.Range(1, 3)
	p.Cluster.Members = n0
	p.Cluster.ReplicaCount = R
	p.Cluster.Partitions = partitionsFor(r, 6)
	p.Cluster.TableSize = Pick(r, 256, 512, 2048, 1<<20)
	p.Cluster.RoutingPushMs = Pick(r, 300, 1000)
	p.Cluster.BalancerMs = Pick(r, 100, 500)
	p.Cluster.ClientReadTimeoutMs = Pick(r, 500, 3000)
	p.Cluster.ReadRepair = false
	yields(p, r)
	if r.Bool(500) {
		// wide hand-over window: fragments of several tables (one table moves per balancer round)
		p.Cluster.TableSize = 256
		p.Cluster.BalancerMs = 500
	}
	if r.Bool(150) {
		// janitor variant: empty fragments are looked for every 1-3 ms while tables arrive and keys
		// are deleted, with many short pauses at the scheduling points (function entries, clock
		// reads, lock acquisitions)
		p.Cluster.JanitorMs = r.Range(1, 3)
		p.Yield = plan.YieldSpec{ArmPermille: 700, ParkPermille: 500, MaxUs: int64(Pick(r, 200, 600, 1500))}
	}
	nkeys := r.Range(20, 120)
	nwriters := r.Range(1, 3)
	bound := int64(60000 + 13000*p.Cluster.Partitions)
	quiet := int64(2*p.Cluster.RoutingPushMs + 3*p.Cluster.BalancerMs + 500)
	keysOf := make([][]string, nwriters)
	for k := 0; k < nkeys; k++ {
		keysOf[k%nwriters] = append(keysOf[k%nwriters], fmt.Sprintf("k%d", k))
	}
	vn := 0
	entry := func() (string, int) { return Pick(r, "emb", "cc", "cc", "raw"), 0 }
	load := plan.Phase{Name: "load"}
	for w := 0; w < nwriters; w++ {
		sc := plan.Script{ID: w + 1, Kind: "ctl"}
		for _, k := range keysOf[w] {
			for rep := 0; rep < r.Range(0, 3); rep++ { // overwrites spread the fragment over several tables
				vn++
				t, m := entry()
				sc.Ops = append(sc.Ops, plan.Op{K: "put", Key: k, Val: fmt.Sprintf("v%d", vn), Tag: t, M: m})
			}
			if r.Bool(100) {
				t, m := entry()
				sc.Ops = append(sc.Ops, plan.Op{K: "del", Key: k, Tag: t, M: m})
			}
		}
		load.Clients = append(load.Clients, sc)
	}
	// keys owned by the controller: overwritten and deleted right after each membership event,
	// i.e. while their partition may have a new owner that has not received the data yet
	nhot := r.Range(4, 12)
	hl := plan.Script{ID: 30, Kind: "ctl"}
	for i := 0; i < nhot; i++ {
		for rep := 0; rep <= r.Intn(3); rep++ {
			vn++
			hl.Ops = append(hl.Ops, plan.Op{K: "put", Key: fmt.Sprintf("h%d", i), Val: fmt.Sprintf("v%d", vn), Tag: "cc"})
		}
	}
	load.Clients = append(load.Clients, hl)
	hot := func(ops *[]plan.Op) {
		for j, nj := 0, r.Range(2, 8); j < nj; j++ {
			k := fmt.Sprintf("h%d", r.Intn(nhot))
			t, m := entry()
			d := int64(Pick(r, 0, 100, 2000))
			switch r.Intn(4) {
			case 0:
				vn++
				*ops = append(*ops, plan.Op{K: "put", Key: k, Val: fmt.Sprintf("v%d", vn), Tag: t, M: m, D: d}, plan.Op{K: "del", Key: k, Tag: t, M: m}, plan.Op{K: "get", Key: k, Tag: "cc"})
			case 1:
				*ops = append(*ops, plan.Op{K: "del", Key: k, Tag: t, M: m, D: d}, plan.Op{K: "get", Key: k, Tag: "cc"})
			case 2:
				vn++
				*ops = append(*ops, plan.Op{K: "put", Key: k, Val: fmt.Sprintf("v%d", vn), Tag: t, M: m, D: d}, plan.Op{K: "get", Key: k, Tag: "emb", M: 0})
			default:
				*ops = append(*ops, plan.Op{K: "get", Key: k, Tag: t, M: m, D: d}, plan.Op{K: "del", Key: k, Tag: "cc"}, plan.Op{K: "get", Key: k, Tag: t, M: m})
			}
		}
	}
	work := plan.Phase{Name: "handover", Yields: true}
	for w := 0; w < nwriters; w++ {
		sc := plan.Script{ID: w + 1, Kind: "ctl"}
		for i, nops := 0, r.Range(20, 90); i < nops; i++ {
			k := keysOf[w][r.Intn(len(keysOf[w]))]
			t, m := entry()
			op := plan.Op{Key: k, D: int64(Pick(r, 0, 200, 3000, 30000, 250000)), Tag: t, M: m}
			switch x := r.Intn(100); {
			case x < 45:
				op.K = "get"
			case x < 85:
				vn++
				op.K, op.Val = "put", fmt.Sprintf("v%d", vn)
			default:
				op.K = "del"
			}
			sc.Ops = append(sc.Ops, op)
		}
		work.Clients = append(work.Clients, sc)
	}
	ctl := plan.Script{ID: 30, Kind: "ctl"}
	members := n0
	running := map[int]bool{}
	for i := 0; i < n0; i++ {
		running[i] = true
	}
	sig := ""
	joinsOnly := true
	for e, nev := 0, r.Range(1, 3); e < nev; e++ {
		ctl.Ops = append(ctl.Ops, plan.Op{K: "ctl.sleep", Dur: int64(Pick(r, 0, 5, 100, 1500))})
		nrun := len(running)
		x := r.Intn(100)
		switch {
		case x < 60 || nrun < 2 || R < 2 || members >= 6:
			if members >= 6 {
				continue
			}
			ctl.Ops = append(ctl.Ops, plan.Op{K: "ctl.join", M: members})
			running[members] = true
			members++
			sig += "J"
			// the routing table with the new owner arrives a little after the join; the data follows at
			// the next balancer rounds (one storage table per round)
			ctl.Ops = append(ctl.Ops, plan.Op{K: "ctl.sleep", Dur: int64(Pick(r, 30, 60, 120))})
			hot(&ctl.Ops)
		default:
			// every asserted key must have its backups before a member departs
			ctl.Ops = append(ctl.Ops, plan.Op{K: "ctl.wait_stable", Dur: bound + 3*quiet, Dur2: quiet, Tag: "pre-leave"})
			var cand []int
			for i := range running {
				if i != 0 {
					cand = append(cand, i)
				}
			}
			sort.Ints(cand)
			v := cand[r.Intn(len(cand))]
			delete(running, v)
			joinsOnly = false
			if x < 85 {
				ctl.Ops = append(ctl.Ops, plan.Op{K: "ctl.leave", M: v, Count: nkeys})
				sig += "L"
			} else {
				ctl.Ops = append(ctl.Ops, plan.Op{K: "ctl.crash_inflight", M: v, Flag: r.Bool(500), Dur: 100, Count: nkeys})
				sig += "C"
			}
		}
		if r.Bool(500) {
			ctl.Ops = append(ctl.Ops, plan.Op{K: "ctl.sleep", Dur: int64(Pick(r, 50, 300, 1000))})
			hot(&ctl.Ops)
		}
		if r.Bool(300) {
			ctl.Ops = append(ctl.Ops, plan.Op{K: "ctl.wait_stable", Dur: bound + 3*quiet, Dur2: quiet})
			sig += "s"
		}
	}
	work.Clients = append(work.Clients, ctl)
	basePh := plan.Phase{Name: "baseline"}
	bs := plan.Script{ID: 29, Kind: "ctl"}
	for k := 0; k < nkeys; k++ {
		bs.Ops = append(bs.Ops, plan.Op{K: "ctl.copies", Key: fmt.Sprintf("k%d", k)})
	}
	for i := 0; i < nhot; i++ {
		bs.Ops = append(bs.Ops, plan.Op{K: "ctl.copies", Key: fmt.Sprintf("h%d", i)})
	}
	basePh.Clients = []plan.Script{bs}
	st := plan.Phase{Name: "stabilise", Clients: []plan.Script{{ID: 30, Kind: "ctl", Ops: []plan.Op{
		{K: "ctl.wait_stable", Dur: bound + 3*quiet, Dur2: quiet, Tag: "final"},
		{K: "ctl.snapshot"},
	}}}}
	ver := plan.Phase{Name: "verify"}
	vs := plan.Script{ID: 31, Kind: "ctl"}
	for k := 0; k < nkeys; k++ {
		key := fmt.Sprintf("k%d", k)
		vs.Ops = append(vs.Ops, plan.Op{K: "ctl.get_all", Key: key}, plan.Op{K: "ctl.copies", Key: key})
	}
	for i := 0; i < nhot; i++ {
		key := fmt.Sprintf("h%d", i)
		vs.Ops = append(vs.Ops, plan.Op{K: "ctl.get_all", Key: key}, plan.Op{K: "ctl.copies", Key: key})
	}
	vs.Ops = append(vs.Ops, plan.Op{K: "scan", Tag: "emb", M: -1 - r.Intn(8), Count: Pick(r, 0, 3, 50)})
	vs.Ops = append(vs.Ops, plan.Op{K: "scan", Tag: "cc", Count: Pick(r, 0, 7)})
	ver.Clients = []plan.Script{vs}
	p.Phases = []plan.Phase{load, basePh, work, st, ver}
	p.Variant = fmt.Sprintf("R%d/N%d/%s", R, n0, sig)
	if joinsOnly {
		p.Params["joins_only"] = 1
	}
	return p
}

func oracleC03(p *plan.Plan, his []plan.Rec, res *plan.Result) {
	recs := sortRecs(his)
	// single-writer model: per key the set of values it may hold
	type kstate struct {
		vals     map[string]bool
		ack      string
		ever        map[string]bool // every value ever written to the key
		inWindow    map[string]bool // values written between a membership event and the next stabilisation
		overlapDel  bool // the last acknowledged Delete ran while two or more membership changes were pending
		slowDelete  bool // the last acknowledged Delete was blocked for longer than the member-to-member read time-out
		baseBackups int  // backup copies before the first membership event
		rewritten   bool // written again during the hand-over phase
	}
	ks := map[string]*kstate{}
	get := func(k string) *kstate {
		if ks[k] == nil {
			ks[k] = &kstate{vals: map[string]bool{"": true}}
		}
		return ks[k]
	}
	stable, lastEvent, opsInWindow := false, int64(-1), 0
	// Membership events that are still "pending" at simulated time t: events invoked before t that
	// no successful stabilisation wait - started after the event and finished before t - has closed.
	// (A wait is invoked right after the event and returns seconds later; everything issued in
	// between is inside the hand-over window.)
	var evTimes []int64
	var waits [][2]int64
	for i := range recs {
		r := &recs[i]
		switch r.Op.K {
		case "ctl.join", "ctl.leave", "ctl.crash", "ctl.crash_inflight":
			if r.Err != "skipped" {
				evTimes = append(evTimes, r.TInv)
			}
		case "ctl.wait_stable":
			if r.Err == "" {
				waits = append(waits, [2]int64{r.TInv, r.TRet})
			}
		}
	}
	// graceful leaves in progress: the departing member still answers requests with the table it had
	var leaves [][2]int64
	for i := range recs {
		if recs[i].Op.K == "ctl.leave" && recs[i].Err != "skipped" {
			leaves = append(leaves, [2]int64{recs[i].TInv, recs[i].TRet})
		}
	}
	duringLeave := func(r *plan.Rec) bool {
		for _, l := range leaves {
			if r.TRet >= l[0] && r.TInv <= l[1] {
				return true
			}
		}
		return false
	}
	pendingAt := func(t int64) int {
		n := 0
		for _, e := range evTimes {
			if e > t {
				continue
			}
			closed := false
			for _, w := range waits {
				if w[0] >= e && w[1] <= t {
					closed = true
				}
			}
			if !closed {
				n++
			}
		}
		return n
	}
	_ = lastEvent
	// membership events since the cluster last stabilised: with two or more, a fragment can arrive on a
	// member that has meanwhile been replaced as owner and is not listed as a previous owner yet
	// (known finding "overlapping-membership-changes")
	pendingEvents := 0
	overlap := func() string {
		if pendingEvents >= 2 {
			return " overlapping-membership-changes"
		}
		return ""
	}
	var snap *plan.Snapshot
	for i := range recs {
		r := &recs[i]
		pendingEvents = pendingAt(r.TInv)
		if pendingEvents > 0 {
			lastEvent = r.TInv
		} else {
			lastEvent = -1
		}
		switch r.Op.K {
		case "ctl.join", "ctl.leave", "ctl.crash", "ctl.crash_inflight":
			if r.Err == "skipped" {
				res.Counters["oracle.stops_skipped_no_backups"]++
				continue
			}
			if strings.HasPrefix(r.Err, "other:") {
				res.Status, res.Reason = "inconclusive", "member start failed: "+r.Err
			}
		case "ctl.wait_stable":
			if r.Err != "" {
				viol(res, "hand-over-not-completed", p.Variant+stormTag(r.Err), "strict stabilisation (%s) not reached within the bound: %s", r.Op.Tag, r.Err)
			} else {
				if r.Op.Tag == "final" {
					stable = true
				}
			}
		case "ctl.snapshot":
			snap = r.Snap
		case "put", "del":
			if r.Phase > 2 {
				continue
			}
			if lastEvent >= 0 {
				opsInWindow++
			}
			st := get(r.Op.Key)
			if r.Phase == 2 {
				st.rewritten = true
			}
			v := "=" + r.Op.Val
			if r.Op.K == "del" {
				v = ""
			}
			if r.Err == "" {
				// unknown-outcome writes stay possible; acknowledged ones supersede the previous acknowledged value
				if !st.vals["?"+st.ack] {
					delete(st.vals, st.ack)
				}
				st.ack = v
				st.vals[v] = true
				rt := int64(p.Cluster.ClientReadTimeoutMs)
				if rt == 0 {
					rt = 3000
				}
				st.slowDelete = r.Op.K == "del" && r.TRet-r.TInv >= rt*1e6
				st.overlapDel = r.Op.K == "del" && pendingEvents >= 2
			} else {
				st.vals[v], st.vals["?"+v] = true, true
				res.Counters["oracle.indeterminate_writes"]++
				rt := int64(p.Cluster.ClientReadTimeoutMs)
				if rt == 0 {
					rt = 3000
				}
				if r.Op.K == "del" && r.TRet-r.TInv >= rt*1e6 {
					st.slowDelete = true // a blocked Delete that ended in a time-out may have been applied partially
				}
			}
			if st.ever == nil {
				st.ever = map[string]bool{}
				st.inWindow = map[string]bool{}
			}
			st.ever[v] = true
			if lastEvent >= 0 {
				st.inWindow[v] = true
			}
		case "ctl.copies":
			if r.Phase == 1 {
				st := get(r.Op.Key)
				for _, c := range r.Copies {
					if c.Found && c.Kind == "backup" {
						st.baseBackups++
					}
				}
			}
		case "get":
			if r.Phase > 2 {
				continue
			}
			if lastEvent >= 0 {
				opsInWindow++
			}
			st := get(r.Op.Key)
			switch {
			case r.Err == "" && r.Has:
				if !st.vals["="+r.Val] {
					class := "stale-read-during-handover"
					if (st.ack == "" && len(keysOf(st.vals)) == 1) || (st.slowDelete && st.vals[""] && st.ever["="+r.Val]) {
						// an older version came back after a Delete
						class = "deleted-key-resurrected"
					}
					viol(res, class, r.Op.Key+slowTag(st.slowDelete)+overlapTag((st.overlapDel && class == "deleted-key-resurrected") || (class == "stale-read-during-handover" && pendingEvents >= 2))+windowTag(class == "deleted-key-resurrected" && st.inWindow["="+r.Val])+departTag(class == "stale-read-during-handover" && duringLeave(r)), "%s but the key may only hold %v; writes: %s", descRecT(r), keysOf(st.vals), writesOf(his, r.Op.Key))
				}
			case r.Err == plan.ENotFound:
				if !st.vals[""] {
					viol(res, "key-lost-during-handover", r.Op.Key+overlap()+windowTag(st.inWindow[st.ack]), "%s but the key may only hold %v; writes: %s", descRecT(r), keysOf(st.vals), writesOf(his, r.Op.Key))
				}
			default:
				res.Counters["oracle.failed_reads"]++
			}
		}
	}
	res.Nontrivial = opsInWindow > 0
	res.NTKey = p.Variant + "/" + fpKey(res)
	if !stable {
		return
	}
	live := map[string]bool{}
	reported := map[string]bool{}
	nrun := 0
	if snap != nil {
		nrun = len(snap.Members)
	}
	wantBackups := p.Cluster.ReplicaCount - 1
	if wantBackups > nrun-1 {
		wantBackups = nrun - 1
	}
	for i := range recs {
		r := &recs[i]
		if r.Phase != 4 {
			continue
		}
		st := get(r.Op.Key)
		switch r.Op.K {
		case "ctl.get_all":
			seen := map[string]bool{}
			for _, c := range r.Copies {
				if c.Err != "" {
					viol(res, "unreadable", r.Op.Key, "Get(%s) through m%d failed after stabilisation: %s", r.Op.Key, c.Member, c.Err)
					continue
				}
				v := ""
				if c.Found {
					v = "=" + c.Val
				}
				seen[v] = true
				if !st.vals[v] {
					reported[r.Op.Key] = true
					class := "wrong-final-value"
					if v == "" {
						class = "key-lost"
					} else if (st.ack == "" && len(keysOf(st.vals)) == 1) || (st.slowDelete && st.vals[""] && st.ever[v]) {
						class = "deleted-key-resurrected"
					}
					viol(res, class, r.Op.Key+slowTag(st.slowDelete)+overlapTag(st.overlapDel && class == "deleted-key-resurrected")+windowTag(class == "deleted-key-resurrected" && st.inWindow[v]), "Get(%s) through m%d returned %q, allowed %v; writes: %s", r.Op.Key, c.Member, v, keysOf(st.vals), writesOf(his, r.Op.Key))
				}
			}
			if len(seen) > 1 {
				viol(res, "members-disagree", r.Op.Key, "members return different values for %s: %v", r.Op.Key, keysOf(seen))
			} else if seen[""] == false && len(seen) == 1 && st.vals[keysOf(seen)[0]] {
				// (a key that reads a value it must not have has been reported above; its copies
				// are not judged a second time)
				live[r.Op.Key] = true
			}
		case "ctl.copies":
			prim, back := 0, 0
			for _, c := range r.Copies {
				if !c.Found {
					continue
				}
				if c.Kind == "primary" {
					prim++
					if c.Routed != "owner" {
						viol(res, "stray-primary-copy", r.Op.Key, "m%d holds a primary copy of %s but is not its owner (%s): %+v", c.Member, r.Op.Key, c.Routed, r.Copies)
					}
				} else {
					back++
					if c.Routed != "backup" {
						viol(res, "stray-backup-copy", r.Op.Key, "m%d holds a backup copy of %s but is not a backup owner: %+v", c.Member, r.Op.Key, r.Copies)
					}
				}
			}
			if live[r.Op.Key] && len(keysOf(st.vals)) == 1 {
				if prim > 1 || (prim != 1 && p.Params["joins_only"] != 0) {
					viol(res, "primary-copy-count", r.Op.Key, "%s is stored as %d primary copies: %+v", r.Op.Key, prim, r.Copies)
				}
				// a key that was not rewritten during the hand-over keeps the backup copies it had before
				if p.Params["joins_only"] != 0 && !st.rewritten && (back < st.baseBackups || back > wantBackups) {
					viol(res, "backup-copy-count", r.Op.Key, "%s has %d backup copies after the joins; it had %d before them (R=%d, %d members now): %+v", r.Op.Key, back, st.baseBackups, p.Cluster.ReplicaCount, nrun, r.Copies)
				}
			}
		case "scan":
			if r.Err != "" {
				viol(res, "scan-failed", r.Op.Tag, "%s", r.Err)
				continue
			}
			got := map[string]int{}
			for _, k := range r.Keys {
				got[k]++
			}
			for k, c := range got {
				if c > 1 {
					viol(res, "scan-duplicate", k, "scan via %s yielded %s %d times", r.Op.Tag, k, c)
				}
				if reported[k] {
					continue // the key's wrong value has been reported by the reads above
				}
				if st := ks[k]; st == nil || (!live[k] && len(keysOf(st.vals)) == 1 && st.vals[""]) {
					viol(res, "scan-yields-dead-key", k, "scan via %s yielded %s which is deleted or was never stored", r.Op.Tag, k)
				}
			}
			for k := range live {
				if got[k] == 0 && len(keysOf(get(k).vals)) == 1 {
					viol(res, "scan-misses-key", k, "scan via %s did not yield live key %s (%d keys yielded, %d live)", r.Op.Tag, k, len(got), len(live))
				}
			}
		}
	}
}

// windowTag marks a resurrected value that was itself written while the routing tables were
// changing (known finding "written-during-handover"); an older value coming back carries no tag.
func windowTag(b bool) string {
	if b {
		return " written-during-handover"
	}
	return ""
}

// departTag marks a stale read that was answered while a member was leaving gracefully (known
// finding "served-by-departing-member").
func departTag(b bool) string {
	if b {
		return " served-by-departing-member"
	}
	return ""
}

func overlapTag(b bool) string {
	if b {
		return " overlapping-membership-changes"
	}
	return ""
}

func slowTag(slow bool) string {
	if slow {
		return " delete-blocked-by-move"
	}
	return ""
}
