package props

import (
	"fmt"
	"regexp"

	"verif/plan"
)

func init() {
	register(&Meta{ID: "C12", Level: "exploration", QuickSec: 45, ThoroSec: 900, WallMaxS: 120,
		Rule: "each run = seeded plan: 1-3 members, R 1-2, tiny to large tables; a prior history of inserts, overwrites, deletes and pauses that let compaction and idle-table release reshape the tables of 10-120 'stable' keys; then full iterations through EmbeddedDMap.Scan, ClusterDMap.Scan and raw DM.SCAN cursors per partition (primary and RC) with COUNT in {default,1,2,3,10,100,5000} and MATCH patterns (all / some / none), while writers insert, overwrite and delete other ('churn') keys of the same DMap and background compaction runs; oracle: termination, every stable key yielded (exactly once by the client iterators), nothing yielded that was never stored or was deleted before the iteration began, MATCH yields exactly the matching stable keys; non-trivial = the stable keys were spread over >= 2 storage tables or >= 2 partitions and writers ran during the iteration; distinct = (count, pattern, path) x schedule fingerprints",
		Assume: []string{"membership stable", "a churn key that is deleted and re-inserted during the iteration may or may not be yielded"},
	}, genC12, oracleC12)
}

func genC12(seed uint64, tier string) *plan.Plan {
	r := NewRng(seed, "C12")
	p := base("C12", seed, tier, r)
	n := r.Range(1, 3)
	p.Cluster.Members = n
	p.Cluster.ReplicaCount = r.Range(1, min(2, n))
	p.Cluster.Partitions = partitionsFor(r, n)
	p.Cluster.TableSize = Pick(r, 256, 512, 2048, 1<<20)
	p.Cluster.CompactionMs = Pick(r, 10, 100, 2000)
	p.Cluster.MaxIdleTableMs = Pick(r, 20, 500)
	yields(p, r)
	nst := r.Range(10, 120)
	hist := plan.Phase{Name: "history"}
	hs := plan.Script{ID: 1, Kind: "ctl"}
	ent := func() (string, int) { return Pick(r, "emb", "cc", "raw"), r.Intn(n) }
	for i := 0; i < nst; i++ {
		k := fmt.Sprintf("s%03d", i)
		for rep := 0; rep <= r.Intn(4); rep++ {
			t, m := ent()
			hs.Ops = append(hs.Ops, plan.Op{K: "put", Key: k, Val: fmt.Sprintf("v%d.%d", i, rep), Tag: t, M: m})
		}
	}
	// keys that are deleted before the iteration begins
	ndead := r.Range(0, 30)
	for i := 0; i < ndead; i++ {
		k := fmt.Sprintf("d%03d", i)
		for rep := 0; rep <= r.Intn(3); rep++ { // overwritten before being deleted
			t, m := ent()
			hs.Ops = append(hs.Ops, plan.Op{K: "put", Key: k, Val: fmt.Sprintf("x%d", rep), Tag: t, M: m})
		}
	}
	for i := 0; i < ndead; i++ {
		t, m := ent()
		hs.Ops = append(hs.Ops, plan.Op{K: "del", Key: fmt.Sprintf("d%03d", i), Tag: t, M: m})
	}
	hs.Ops = append(hs.Ops, plan.Op{K: "ctl.sleep", Dur: int64(Pick(r, 1, 300, 5000))})
	hs.Ops = append(hs.Ops, plan.Op{K: "ctl.stats", M: 0})
	hist.Clients = []plan.Script{hs}
	work := plan.Phase{Name: "iterate", Yields: true}
	// anchored, unanchored (a plain literal matches anywhere in the key), classes, alternatives
	pats := []string{"", "", "^s", "^s0[0-4]", "7$", "nomatch", "^d", "0", "12", "s0", "1|3", "[0-9]5", "s.*9"}
	counts := []int{0, 1, 2, 3, 10, 100, 5000}
	nscan := r.Range(1, 4)
	for i := 0; i < nscan; i++ {
		sc := plan.Script{ID: 10 + i, Kind: "ctl"}
		for j, ns := 0, r.Range(1, 2); j < ns; j++ {
			op := plan.Op{Count: counts[r.Intn(len(counts))], Pattern: pats[r.Intn(len(pats))], D: int64(Pick(r, 0, 500, 5000))}
			switch r.Intn(4) {
			case 0:
				op.K, op.Tag, op.M = "scan", "emb", r.Intn(n)
			case 1:
				op.K, op.Tag = "scan", "cc"
			case 2:
				op.K = "ctl.rawscan"
			default:
				op.K, op.Flag = "ctl.rawscan", p.Cluster.ReplicaCount > 1
			}
			sc.Ops = append(sc.Ops, op)
		}
		work.Clients = append(work.Clients, sc)
	}
	nw := r.Range(0, 2)
	for w := 0; w < nw; w++ {
		sc := plan.Script{ID: 20 + w, Kind: "ctl"}
		for i, no := 0, r.Range(10, 60); i < no; i++ {
			t, m := ent()
			k := fmt.Sprintf("c%d-%02d", w, r.Intn(15))
			if r.Bool(650) {
				sc.Ops = append(sc.Ops, plan.Op{K: "put", Key: k, Val: fmt.Sprintf("c%d", i), Tag: t, M: m, D: int64(Pick(r, 0, 100, 1000))})
			} else {
				sc.Ops = append(sc.Ops, plan.Op{K: "del", Key: k, Tag: t, M: m, D: int64(Pick(r, 0, 100, 1000))})
			}
		}
		work.Clients = append(work.Clients, sc)
	}
	p.Params["writers"] = int64(nw)
	p.Phases = []plan.Phase{hist, work}
	return p
}

func oracleC12(p *plan.Plan, his []plan.Rec, res *plan.Result) {
	stable := map[string]bool{}
	dead := map[string]bool{}
	everPut := map[string]bool{}
	tables := 0
	for i := range his {
		r := &his[i]
		if r.Phase == 0 {
			switch r.Op.K {
			case "put":
				if r.Err == "" {
					stable[r.Op.Key] = true
					delete(dead, r.Op.Key)
				} else {
					res.Status, res.Reason = "inconclusive", "history write failed: "+r.Err
					return
				}
			case "del":
				if r.Err == "" {
					delete(stable, r.Op.Key)
					dead[r.Op.Key] = true
				}
			case "ctl.stats":
				tables = countTables(r.Info, p.DMap)
			}
		}
		if r.Op.K == "put" {
			everPut[r.Op.Key] = true
		}
	}
	for i := range his {
		r := &his[i]
		if r.Phase != 1 || (r.Op.K != "scan" && r.Op.K != "ctl.rawscan") {
			continue
		}
		path := r.Op.K + "/" + r.Op.Tag
		if r.Op.Flag {
			path += "RC"
		}
		subj := fmt.Sprintf("%s count=%d match=%q", path, r.Op.Count, r.Op.Pattern)
		if r.Err != "" {
			class := "scan-failed"
			if r.Err == "other:scan did not terminate" {
				class = "scan-does-not-terminate"
			}
			viol(res, class, subj, "%s: %s", subj, r.Err)
			continue
		}
		var re *regexp.Regexp
		if r.Op.Pattern != "" {
			re = regexp.MustCompile(r.Op.Pattern)
		}
		got := map[string]int{}
		for _, k := range r.Keys {
			got[k]++
		}
		for k, c := range got {
			if c > 1 && r.Op.K == "scan" {
				viol(res, "scan-duplicate", subj, "%s yielded %s %d times", subj, k, c)
			}
			if re != nil && !re.MatchString(k) {
				viol(res, "scan-ignores-pattern", subj, "%s yielded %s", subj, k)
			}
			if dead[k] {
				viol(res, "scan-yields-deleted-key", subj, "%s yielded %s, which was deleted before the iteration began", subj, k)
			} else if !everPut[k] {
				viol(res, "scan-yields-unknown-key", subj, "%s yielded %q, which was never stored", subj, k)
			}
		}
		miss := []string{}
		for k := range stable {
			if (re == nil || re.MatchString(k)) && got[k] == 0 {
				miss = append(miss, k)
			}
		}
		if len(miss) > 0 {
			viol(res, "scan-misses-stable-key", subj, "%s missed %d of %d stable keys, e.g. %v (yielded %d keys)", subj, len(miss), len(stable), head5(miss), len(got))
		}
	}
	res.Nontrivial = (tables >= 2 || p.Cluster.Partitions >= 2) && p.Params["writers"] > 0
	res.NTKey = fpKey(res)
}

func head5(s []string) []string {
	if len(s) > 5 {
		return s[:5]
	}
	return s
}

var tablesRe = regexp.MustCompile(`"num_tables":(\d+)`)

// countTables extracts the largest num_tables of the DMap from a STATS JSON blob.
func countTables(statsJSON, dm string) int {
	best := 0
	for _, m := range tablesRe.FindAllStringSubmatch(statsJSON, -1) {
		var n int
		fmt.Sscanf(m[1], "%d", &n)
		if n > best {
			best = n
		}
	}
	return best
}
