package props

import (
	"fmt"
	"strconv"
	"time"

	"verif/plan"
)

func init() {
	register(&Meta{ID: "C07", Level: "exploration", QuickSec: 40, ThoroSec: 900, WallMaxS: 90,
		Rule: "each run = seeded plan (1-4 members, R 1-2, 2-8 concurrent callers over embedded-owner / embedded-non-owner / cluster / raw entry points; counter keys get Incr/Decr with mixed signs, float keys IncrByFloat with exactly representable deltas, chain keys GetPut with unique values) under one seeded schedule with yields armed between read and write; non-trivial = two atomic ops on one key overlapped; distinct = schedule fingerprints",
		Assume: []string{"membership is stable during the workload", "float deltas are multiples of 0.25 so that addition is exact and order-independent"},
	}, genC07, oracleC07)
}

func genC07(seed uint64, tier string) *plan.Plan {
	r := NewRng(seed, "C07")
	p := base("C07", seed, tier, r)
	n := r.Range(1, 4)
	p.Cluster.Members = n
	p.Cluster.ReplicaCount = r.Range(1, min(2, n))
	p.Cluster.Partitions = partitionsFor(r, n)
	p.Cluster.TableSize = Pick(r, 256, 512, 1<<20)
	p.Cluster.JanitorMs = Pick(r, 200, 5000)
	yields(p, r)
	if p.Yield.ArmPermille == 0 && r.Bool(500) {
		p.Yield = plan.YieldSpec{ArmPermille: 300, ParkPermille: 300, MaxUs: 500}
	}
	type kd struct{ key, kind string }
	var keys []kd
	for i, nk := 0, r.Range(1, 3); i < nk; i++ {
		kind := Pick(r, "int", "int", "float", "chain")
		keys = append(keys, kd{fmt.Sprintf("%s%d", kind[:1], i), kind})
	}
	// init phase: some keys start with a value
	init := plan.Phase{Name: "init"}
	ic := plan.Script{ID: 50, Kind: "emb", M: 0}
	for _, k := range keys {
		if r.Bool(500) {
			switch k.kind {
			case "int":
				ic.Ops = append(ic.Ops, plan.Op{K: "put", Key: k.key, Val: strconv.Itoa(r.Range(-50, 50))})
			case "float":
				ic.Ops = append(ic.Ops, plan.Op{K: "put", Key: k.key, Val: strconv.FormatFloat(float64(r.Range(-20, 20))*0.25, 'f', -1, 64)})
			case "chain":
				ic.Ops = append(ic.Ops, plan.Op{K: "put", Key: k.key, Val: "init-" + k.key})
			}
		}
	}
	init.Clients = []plan.Script{ic}
	work := plan.Phase{Name: "work", Yields: true}
	ncl := r.Range(2, 8)
	vn := 0
	for c := 1; c <= ncl; c++ {
		sc := entry(r, c, n)
		for i, nops := 0, r.Range(3, 10); i < nops; i++ {
			k := keys[r.Intn(len(keys))]
			op := plan.Op{Key: k.key, D: int64(Pick(r, 0, 0, 10, 300))}
			switch k.kind {
			case "int":
				op.K = Pick(r, "incr", "decr")
				op.Delta = int64(r.Range(1, 9))
				if r.Bool(200) {
					op.Delta = int64(r.Range(20, 200)) // drives the value negative
				}
			case "float":
				op.K = "incrf"
				op.FDelta = float64(r.Range(-12, 12)) * 0.25
			case "chain":
				op.K = "getput"
				vn++
				op.Val = fmt.Sprintf("g%d.%d", c, vn)
			}
			sc.Ops = append(sc.Ops, op)
		}
		work.Clients = append(work.Clients, sc)
	}
	fin := plan.Phase{Name: "final"}
	fc := plan.Script{ID: 51, Kind: "emb", M: r.Intn(n)}
	for _, k := range keys {
		fc.Ops = append(fc.Ops, plan.Op{K: "get", Key: k.key})
	}
	fin.Clients = []plan.Script{fc}
	p.Phases = []plan.Phase{init, work, fin}
	return p
}

func oracleC07(p *plan.Plan, his []plan.Rec, res *plan.Result) {
	var recs []*plan.Rec
	indetKeys := map[string]bool{}
	for i := range his {
		r := &his[i]
		switch r.Op.K {
		case "get", "put", "incr", "decr", "incrf", "getput":
			recs = append(recs, r)
			if isIndeterminate(r.Err) {
				indetKeys[r.Op.Key] = true
				res.Counters["oracle.indeterminate_ops"]++
			} else if r.Err != "" && r.Op.K != "get" {
				// atomic ops have no documented failure in a stable cluster
				viol(res, "atomic-op-failed", r.Op.K+"/"+r.Err, "%s", descRec(r))
			}
		}
	}
	res.Counters["oracle.ops"] = int64(len(recs))
	for i := 0; i < len(recs) && !res.Nontrivial; i++ {
		for j := i + 1; j < len(recs); j++ {
			if recs[i].Phase == 1 && recs[j].Phase == 1 && recs[i].Op.Key == recs[j].Op.Key && overlaps(recs[i], recs[j]) {
				res.Nontrivial = true
				break
			}
		}
	}
	res.NTKey = fpKey(res)
	// 1. linearizability of returned values (each call observed exactly the calls ordered before it)
	illegal, unknown := linCheck(recs, 20*time.Second)
	for _, k := range illegal {
		viol(res, "atomic-not-linearizable", k, "returned values of %s admit no sequential order: %s", k, keyHistory(recs, k))
	}
	if len(unknown) > 0 && len(illegal) == 0 {
		res.Status, res.Reason = "inconclusive", "porcupine timeout"
	}
	// 2. conservation: final value = initial + sum of acknowledged deltas
	type acc struct {
		isum  int64
		fsum  float64
		init  string
		has   bool
		final *plan.Rec
		kind  string
		seen  map[string]int
	}
	m := map[string]*acc{}
	get := func(k string) *acc {
		if m[k] == nil {
			m[k] = &acc{seen: map[string]int{}}
		}
		return m[k]
	}
	for _, r := range recs {
		a := get(r.Op.Key)
		switch {
		case r.Phase == 0 && r.Op.K == "put" && r.Err == "":
			a.init, a.has = r.Op.Val, true
		case r.Phase == 1 && r.Err == "":
			a.kind = r.Op.K
			switch r.Op.K {
			case "incr":
				a.isum += r.Op.Delta
			case "decr":
				a.isum -= r.Op.Delta
			case "incrf":
				a.fsum += r.Op.FDelta
			case "getput":
				if r.Has {
					a.seen[r.Val]++
				} else {
					a.seen["<none>"]++
				}
			}
		case r.Phase == 2 && r.Op.K == "get":
			a.final = r
		}
	}
	for k, a := range m {
		if indetKeys[k] || a.final == nil || a.kind == "" {
			continue
		}
		f := a.final
		switch a.kind {
		case "incr", "decr":
			iv, _ := strconv.ParseInt(a.init, 10, 64)
			want := strconv.FormatInt(iv+a.isum, 10)
			if f.Err != "" || f.Val != want {
				viol(res, "lost-update", k, "final value of %s is %q (err=%q), want %s = initial %d + sum of acknowledged deltas %d; %s", k, f.Val, f.Err, want, iv, a.isum, keyHistory(recs, "/"+k))
			}
		case "incrf":
			fv, _ := strconv.ParseFloat(a.init, 64)
			got, perr := strconv.ParseFloat(f.Val, 64)
			if f.Err != "" || perr != nil || got != fv+a.fsum {
				viol(res, "lost-update", k, "final value of %s is %q (err=%q), want %v; %s", k, f.Val, f.Err, fv+a.fsum, keyHistory(recs, "/"+k))
			}
		case "getput":
			for v, c := range a.seen {
				if c > 1 {
					viol(res, "getput-chain-broken", k, "old value %s was returned by %d GetPut calls; %s", v, c, keyHistory(recs, "/"+k))
				}
			}
		}
	}
}
