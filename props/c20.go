package props

import (
	"encoding/json"
	"fmt"

	"verif/plan"
)

func init() {
	register(&Meta{ID: "C20", Level: "exploration", QuickSec: 45, ThoroSec: 900, WallMaxS: 150,
		Rule: "each run = seeded plan: 1-3 members, R 1-2, table size 512-8192 B, a fixed set of 10-150 keys (values <= 1/10 table) churned by 500-6000 Put / Delete / Put-with-ttl operations (the ttl ones expire and are removed by background eviction), short compaction interval and idle-table timeout; then the simulated clock is advanced so that compaction and idle-table release settle, and STATS is read from every member for primary and backup fragments; oracle: total in-use bytes of primary (backup) fragments = live entry bytes (x copies), plus at most the expired entries that background eviction has not sampled yet, per fragment Allocated <= live/(0.6 - maxEntry/table) + 3 tables and Garbage <= 0.4 Allocated + 1 table, Length = live keys; a second settle period must not increase allocation; non-trivial = the churn wrote at least 5x the live data and at least one fragment spanned >= 2 tables at some point; distinct = (table size, key count, R, op mix) x schedule fingerprints",
		Assume: []string{"membership stable", "bound derived from the 40 % per-table garbage threshold: a table that stopped being the write table is full, so it is compacted unless > 60 % of it (minus one entry) is live"},
	}, genC20, oracleC20)
}

func genC20(seed uint64, tier string) *plan.Plan {
	r := NewRng(seed, "C20")
	p := base("C20", seed, tier, r)
	n := r.Range(1, 3)
	p.Cluster.Members = n
	p.Cluster.ReplicaCount = r.Range(1, min(2, n))
	p.Cluster.Partitions = partitionsFor(r, n)
	ts := Pick(r, 512, 2048, 8192)
	p.Cluster.TableSize = ts
	p.Cluster.CompactionMs = Pick(r, 10, 50, 200)
	p.Cluster.MaxIdleTableMs = Pick(r, 20, 200)
	p.Cluster.JanitorMs = 60000
	p.Yield = plan.YieldSpec{}
	nkeys := r.Range(10, 150)
	nops := r.Range(500, 6000)
	if tier == "quick" && nops > 2500 {
		nops = 2500
	}
	maxVal := ts/10 - 40
	if maxVal < 4 {
		maxVal = 4
	}
	sc := plan.Script{ID: 1, Kind: "emb", M: 0}
	skew := r.Bool(400)
	if skew {
		// skewed churn: cold keys written once fill most of the oldest table of every fragment, then a
		// few hot keys are churned; the younger tables that hold only superseded versions must go
		ncold := int(p.Cluster.Partitions) * r.Range(5, 9)
		for i := 0; i < ncold; i++ {
			sc.Ops = append(sc.Ops, plan.Op{K: "put", Key: fmt.Sprintf("c%03d", i), Val: fixedVal(maxVal)})
		}
		nkeys = r.Range(5, 30)
	}
	ttlShare := Pick(r, 0, 100, 300)
	delShare := Pick(r, 50, 200, 400)
	wipe := !skew && r.Bool(300)
	if wipe {
		// few keys, many deletes and a fast janitor: fragments become empty and are closed and
		// removed again and again while compaction and eviction walk over them
		p.Cluster.JanitorMs = Pick(r, 5, 20, 100)
		nkeys = r.Range(2, 12)
		delShare = Pick(r, 400, 600)
	}
	big := !skew && !wipe && r.Bool(250)
	if big {
		// entries of about a third and of about three quarters of a table alternate: a table rolls over
		// while it is mostly empty, and what it holds is superseded soon after
		nkeys = r.Range(2, 8)
		if nops > 800 {
			nops = 800
		}
	}
	for i := 0; i < nops; i++ {
		k := fmt.Sprintf("k%03d", r.Intn(nkeys))
		if big {
			frac := Pick(r, 28, 33, 70, 78)
			if i%2 == 0 {
				frac = Pick(r, 28, 33)
			}
			sc.Ops = append(sc.Ops, plan.Op{K: "put", Key: k, Val: fixedVal(ts*frac/100 - 40)})
			continue
		}
		switch x := r.Intn(1000); {
		case x < delShare:
			sc.Ops = append(sc.Ops, plan.Op{K: "del", Key: k})
		case x < delShare+ttlShare:
			sc.Ops = append(sc.Ops, plan.Op{K: "put", Key: k, Val: randVal(r, maxVal), PX: int64(r.Range(5, 300))})
		default:
			sc.Ops = append(sc.Ops, plan.Op{K: "put", Key: k, Val: randVal(r, maxVal)})
		}
		if r.Bool(20) {
			sc.Ops = append(sc.Ops, plan.Op{K: "ctl.sleep", Dur: int64(Pick(r, 5, 60, 400))})
		}
		if i == nops/2 {
			for m := 0; m < n; m++ {
				sc.Ops = append(sc.Ops, plan.Op{K: "ctl.stats", M: m, Tag: "mid"})
			}
		}
	}
	settle := func(tag string) {
		sc.Ops = append(sc.Ops, plan.Op{K: "ctl.sleep", Dur: 20000})
		for m := 0; m < n; m++ {
			sc.Ops = append(sc.Ops, plan.Op{K: "ctl.stats", M: m, Tag: tag})
		}
	}
	settle("settled")
	settle("settled2")
	for i := 0; i < nkeys; i++ {
		sc.Ops = append(sc.Ops, plan.Op{K: "get", Key: fmt.Sprintf("k%03d", i)})
	}
	p.Phases = []plan.Phase{{Name: "churn", Clients: []plan.Script{sc}}}
	p.Variant = fmt.Sprintf("ts%d/k%d/R%d/N%d/ttl%d/del%d/skew=%v/wipe=%v/big=%v", ts, nkeys, p.Cluster.ReplicaCount, n, ttlShare, delShare, skew, wipe, big)
	p.Params["max_entry"] = int64(maxVal + 29 + 4)
	return p
}

func fixedVal(n int) string {
	b := make([]byte, n)
	for i := range b {
		b[i] = 'c'
	}
	return string(b)
}

func randVal(r *Rng, maxLen int) string {
	n := 1 + r.Intn(maxLen)
	b := make([]byte, n)
	c := byte('a' + r.Intn(26))
	for i := range b {
		b[i] = c
	}
	return string(b)
}

type statsBlob struct {
	Partitions map[string]statsPart `json:"partitions"`
	Backups    map[string]statsPart `json:"backups"`
}
type statsPart struct {
	Length int                  `json:"length"`
	DMaps  map[string]statsDMap `json:"dmaps"`
}
type statsDMap struct {
	Length    int `json:"length"`
	NumTables int `json:"num_tables"`
	SlabInfo  struct {
		Allocated int `json:"allocated"`
		Inuse     int `json:"inuse"`
		Garbage   int `json:"garbage"`
	} `json:"slab_info"`
}

func oracleC20(p *plan.Plan, his []plan.Rec, res *plan.Result) {
	// sequential single-writer model with expiry
	type ent struct {
		val string
		exp int64 // ms wall, 0 none
	}
	model := map[string]ent{}
	written := 0
	recs := sortRecs(his)
	var endMs int64
	for i := range recs {
		r := &recs[i]
		switch r.Op.K {
		case "put":
			if r.Err != "" {
				viol(res, "churn-write-failed", r.Err, "%s", descRecT(r))
				return
			}
			e := ent{val: r.Op.Val}
			if r.Op.PX > 0 {
				e.exp = bubbleEpochMs + r.TRet/1e6 + r.Op.PX
			}
			model[r.Op.Key] = e
			written += 29 + len(r.Op.Key) + len(r.Op.Val)
		case "del":
			delete(model, r.Op.Key)
		case "ctl.stats":
			endMs = bubbleEpochMs + r.TInv/1e6
		}
	}
	live, liveKeys := 0, 0
	dead, deadKeys := 0, 0 // expired entries that background eviction may not have removed yet
	for k, e := range model {
		if e.exp != 0 && e.exp+1 <= endMs {
			dead += 29 + len(k) + len(e.val)
			deadKeys++
			continue
		}
		live += 29 + len(k) + len(e.val)
		liveKeys++
	}
	ts := p.Cluster.TableSize
	maxEntry := int(p.Params["max_entry"])
	factor := 1.0 / (0.6 - float64(maxEntry)/float64(ts))
	multi := false
	copies := min(p.Cluster.ReplicaCount, p.Cluster.Members)
	totals := map[string][4]int{} // tag/kind -> inuse, allocated, garbage, length
	perFrag := map[string]int{}   // settled allocation per fragment
	for i := range recs {
		r := &recs[i]
		if r.Op.K != "ctl.stats" || r.Info == "" {
			continue
		}
		var sb statsBlob
		if err := json.Unmarshal([]byte(r.Info), &sb); err != nil {
			res.Status, res.Reason = "inconclusive", "stats json: "+err.Error()
			return
		}
		for kind, parts := range map[string]map[string]statsPart{"primary": sb.Partitions, "backup": sb.Backups} {
			for pid, part := range parts {
				d, ok := part.DMaps[p.DMap]
				if !ok {
					continue
				}
				if d.NumTables >= 2 {
					multi = true
				}
				key := r.Op.Tag + "/" + kind
				t := totals[key]
				t[0] += d.SlabInfo.Inuse
				t[1] += d.SlabInfo.Allocated
				t[2] += d.SlabInfo.Garbage
				t[3] += d.Length
				totals[key] = t
				if r.Op.Tag == "mid" {
					continue
				}
				frag := fmt.Sprintf("m%d/%s/p%s", r.Op.M, kind, pid)
				// the fragment's own live bytes are not known per partition: use its in-use bytes,
				// which the totals check ties to the live data
				bound := int(float64(d.SlabInfo.Inuse)*factor) + 3*ts
				if d.SlabInfo.Allocated > bound {
					viol(res, "allocation-unbounded", kind, "%s after settling: allocated %d B in %d tables for %d B in use (garbage %d); bound in-use x %.2f + 3 tables = %d [%s]", frag, d.SlabInfo.Allocated, d.NumTables, d.SlabInfo.Inuse, d.SlabInfo.Garbage, factor, bound, p.Variant)
				}
				if g := d.SlabInfo.Garbage; float64(g) > 0.4*float64(d.SlabInfo.Allocated)+float64(ts) {
					viol(res, "garbage-above-threshold", kind, "%s after settling: garbage %d B of %d B allocated (%d tables) [%s]", frag, g, d.SlabInfo.Allocated, d.NumTables, p.Variant)
				}
				if r.Op.Tag == "settled" {
					perFrag[frag] = d.SlabInfo.Allocated
				} else if prev, ok := perFrag[frag]; ok && d.SlabInfo.Allocated > prev {
					viol(res, "allocation-grows-while-idle", kind, "%s: allocated %d B after the first settle period, %d B after the second, without any write [%s]", frag, prev, d.SlabInfo.Allocated, p.Variant)
				}
			}
		}
	}
	for _, tag := range []string{"settled", "settled2"} {
		if t, ok := totals[tag+"/primary"]; ok || live == 0 {
			if t[0] < live || t[0] > live+dead {
				viol(res, "inuse-accounting", "primary", "%s: primary fragments report %d B in use, the live entries amount to %d B (%d keys) plus at most %d B of expired entries not evicted yet (allocated %d, garbage %d) [%s]", tag, t[0], live, liveKeys, dead, t[1], t[2], p.Variant)
			}
			if tag == "settled2" && t[3] > liveKeys && t[3] <= liveKeys+deadKeys {
				// 40 simulated seconds = 400 eviction rounds have passed: expired entries should be gone
				subj := "few-keys"
				if t[3] > 19 {
					subj = "more-than-19-keys"
				}
				viol(res, "expired-entries-not-reclaimed", subj, "%d expired entries are still stored 40 s after the churn ended (%d keys stored, %d live) [%s]", t[3]-liveKeys, t[3], liveKeys, p.Variant)
			}
			if t[3] < liveKeys || t[3] > liveKeys+deadKeys {
				viol(res, "length-accounting", "primary", "%s: primary fragments report %d keys, %d are live and %d expired [%s]", tag, t[3], liveKeys, deadKeys, p.Variant)
			}
		}
		if copies > 1 {
			t := totals[tag+"/backup"]
			if t[0] < live*(copies-1) || t[0] > (live+dead)*(copies-1) {
				viol(res, "inuse-accounting", "backup", "%s: backup fragments report %d B in use, want %d x (%d B live + at most %d B expired) [%s]", tag, t[0], copies-1, live, dead, p.Variant)
			}
		}
	}
	res.Nontrivial = multi && written >= 5*max(live, 1)
	res.Counters["oracle.bytes_written"] = int64(written)
	res.Counters["oracle.live_bytes"] = int64(live)
	res.NTKey = p.Variant + "/" + fpKey(res)
}
