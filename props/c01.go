package props

import (
	"fmt"
	"time"

	"verif/plan"
)

func init() {
	register(&Meta{ID: "C01", Level: "exploration", QuickSec: 45, ThoroSec: 900, WallMaxS: 90,
		Rule: "each run = one seeded plan (cluster of 1-4 members, R 1-3, partitions, table size, 3-6 concurrent clients over embedded/cluster/raw entry points, 1-3 keys, Put/PutNX/PutXX/Get/Delete) executed under one seeded schedule (delivery order, lock hand-over, yields); non-trivial = at least two operations on one key overlapped in simulated time; distinct = distinct schedule fingerprints",
		Assume: []string{"membership is stable during the workload (no faults injected)", "porcupine per-key check with a 20 s timeout; Unknown is counted as inconclusive"},
	}, genC01, oracleC01)
}

func genC01(seed uint64, tier string) *plan.Plan {
	r := NewRng(seed, "C01")
	p := base("C01", seed, tier, r)
	n := r.Range(1, 4)
	p.Cluster.Members = n
	p.Cluster.ReplicaCount = r.Range(1, min(3, n))
	p.Cluster.Partitions = partitionsFor(r, n)
	p.Cluster.TableSize = Pick(r, 256, 256, 512, 2048, 1<<20)
	p.Cluster.ReadRepair = r.Bool(150)
	yields(p, r)
	nkeys := r.Range(1, 3)
	ncl := r.Range(3, 6)
	ph := plan.Phase{Name: "work", Yields: true}
	vn := 0
	// fresh variant: the clients move together through a series of DMaps nobody has written to yet,
	// so that first writes to a partition (the fragment does not exist) happen concurrently
	fresh := r.Bool(300)
	if fresh {
		p.Yield = plan.YieldSpec{ArmPermille: 700, ParkPermille: 500, MaxUs: int64(Pick(r, 50, 300, 1000))}
	}
	for c := 1; c <= ncl; c++ {
		sc := entry(r, c, n)
		nops := r.Range(6, 14)
		for i := 0; i < nops; i++ {
			op := plan.Op{Key: fmt.Sprintf("k%d", r.Intn(nkeys)), D: int64(Pick(r, 0, 0, 10, 200, 1500))}
			if fresh {
				op.DM = fmt.Sprintf("fresh%d", i/2)
				op.D = int64(Pick(r, 0, 0, 0, 10, 100))
			}
			switch x := r.Intn(100); {
			case x < 30:
				op.K = "get"
			case x < 60:
				op.K = "put"
			case x < 72:
				op.K, op.NX = "put", true
			case x < 84:
				op.K, op.XX = "put", true
			default:
				op.K = "del"
			}
			if op.K == "put" {
				vn++
				op.Val = fmt.Sprintf("v%d.%d", c, vn)
			}
			sc.Ops = append(sc.Ops, op)
		}
		ph.Clients = append(ph.Clients, sc)
	}
	p.Phases = []plan.Phase{ph}
	if !fresh && r.Bool(200) {
		// janitor variant: keys are deleted and written again in quick succession, so their fragments
		// are empty again and again while the janitor (every 1-3 ms here) looks for empty fragments to
		// remove, with many short pauses at the scheduling points
		p.Cluster.JanitorMs = r.Range(1, 3)
		p.Yield = plan.YieldSpec{ArmPermille: 700, ParkPermille: 500, MaxUs: int64(Pick(r, 200, 600, 1500))}
		for ci := range ph.Clients {
			sc := &ph.Clients[ci]
			sc.Ops = nil
			for i, k := 0, r.Range(15, 40); i < k; i++ {
				op := plan.Op{Key: fmt.Sprintf("k%d", r.Intn(nkeys)), D: int64(Pick(r, 0, 0, 50, 300, 1000))}
				switch x := r.Intn(100); {
				case x < 25:
					op.K = "get"
				case x < 60:
					op.K = "put"
				case x < 70:
					op.K, op.NX = "put", true
				default:
					op.K = "del"
				}
				if op.K == "put" {
					vn++
					op.Val = fmt.Sprintf("v%d.%d", sc.ID, vn)
				}
				sc.Ops = append(sc.Ops, op)
			}
		}
		p.Phases = []plan.Phase{ph}
	}
	if fresh {
		// phases are barriers: in each one every client starts on the same untouched DMap at once
		p.Phases = nil
		for f, nf := 0, r.Range(5, 12); f < nf; f++ {
			fp := plan.Phase{Name: "fresh", Yields: true}
			for ci := range ph.Clients {
				sc := plan.Script{ID: ph.Clients[ci].ID, Kind: ph.Clients[ci].Kind, M: ph.Clients[ci].M}
				for i, k := 0, r.Range(1, 3); i < k; i++ {
					op := plan.Op{DM: fmt.Sprintf("fresh%d", f), Key: fmt.Sprintf("k%d", r.Intn(nkeys)), D: int64(Pick(r, 0, 0, 0, 20))}
					switch x := r.Intn(100); {
					case x < 20:
						op.K = "get"
					case x < 60:
						op.K = "put"
					case x < 80:
						op.K, op.NX = "put", true
					case x < 88:
						op.K, op.XX = "put", true
					default:
						op.K = "del"
					}
					if op.K == "put" {
						vn++
						op.Val = fmt.Sprintf("v%d.%d", sc.ID, vn)
					}
					sc.Ops = append(sc.Ops, op)
				}
				fp.Clients = append(fp.Clients, sc)
			}
			p.Phases = append(p.Phases, fp)
		}
	}
	return p
}

func oracleC01(p *plan.Plan, his []plan.Rec, res *plan.Result) {
	var recs []*plan.Rec
	indet := int64(0)
	for i := range his {
		r := &his[i]
		switch r.Op.K {
		case "get", "put", "del":
			recs = append(recs, r)
			if isIndeterminate(r.Err) {
				indet++
			}
		}
	}
	res.Counters["oracle.indeterminate_ops"] = indet
	res.Counters["oracle.ops"] = int64(len(recs))
	// non-trivial: two ops on one key overlap
	for i := 0; i < len(recs) && !res.Nontrivial; i++ {
		for j := i + 1; j < len(recs); j++ {
			if recs[i].Op.Key == recs[j].Op.Key && overlaps(recs[i], recs[j]) {
				res.Nontrivial = true
				break
			}
		}
	}
	res.NTKey = fpKey(res)
	illegal, unknown := linCheck(recs, 20*time.Second)
	for _, k := range illegal {
		viol(res, "not-linearizable", k+cfgTag(p), "history of %s is not linearizable: %s", k, keyHistory(recs, k))
	}
	if len(unknown) > 0 && len(illegal) == 0 {
		res.Status = "inconclusive"
		res.Reason = "porcupine timeout"
	}
}
