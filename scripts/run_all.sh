#!/bin/sh
# usage: scripts/run_all.sh quick|thorough  -> runs every registered check, one line per property
cd /verif
tier=${1:-quick}
for id in $(python3 -c "import json; print(' '.join(c['property_id'] for c in json.load(open('MANIFEST.json'))['checks']))"); do
  s=$(date +%s)
  out=$(./check $id --tier $tier 2>&1); rc=$?
  e=$(( $(date +%s) - s ))
  echo "$id rc=$rc ${e}s $(echo "$out" | grep '^runs=' | tail -1)"
  echo "$out" | grep "^VIOLATION\|^KNOWN-FINDING\|^INFRA\|violation classes" | cut -c1-220
done
