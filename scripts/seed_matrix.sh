#!/bin/sh
# usage: scripts/seed_matrix.sh [seed-dir ...]   (default: every /verif/seeded/*/)
# For each kept seeded change: apply it to /repo, run the quick check of its property (no minimisation),
# undo it, and record what happened in <seed-dir>/result.json. /repo must be clean. Not a registered check.
cd /verif
test -z "$(git -C /repo status --porcelain)" || { echo "/repo not clean"; exit 2; }
DIRS="$@"; test -n "$DIRS" || DIRS=$(ls -d seeded/*/)
for d in $DIRS; do
  d=${d%/}; id=$(basename $d); prop=${id##*-}
  git -C /repo apply /verif/$d/patch.diff || { echo "$id: patch does not apply"; continue; }
  timeout 3000 ./check $prop --tier quick --nomin > /tmp/seed_matrix.out 2>&1; rc=$?
  git -C /repo checkout -- . ; git -C /repo clean -fdq
  python3 - "$d" "$prop" "$rc" <<'PY'
import sys,re,json
d,prop,rc=sys.argv[1:4]
out=open('/tmp/seed_matrix.out').read()
m=re.search(r'runs=(\d+) nontrivial_distinct=(\d+) violations=(\d+) known=(\d+) infra=(\d+).*wall=([\d.]+)s',out)
cl=re.search(r'violation classes \(first per run\): (.*)',out)
res={'property':prop,'check_cmd':f'./check {prop} --tier quick --nomin','exit_code':int(rc),
     'runs':int(m.group(1)) if m else None,'runs_with_unknown_violation':int(m.group(3)) if m else None,
     'wall_s':float(m.group(6)) if m else None,'violation_classes':cl.group(1).strip() if cl else '',
     'caught': int(rc)==1 and 'VIOLATION property='+prop in out}
json.dump(res,open(d+'/result.json','w'),indent=1)
print(d,res['caught'],res['runs_with_unknown_violation'],'/',res['runs'],res['violation_classes'])
PY
done
