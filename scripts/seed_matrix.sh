#!/bin/sh
# usage: scripts/seed_matrix.sh [seed-dir ...]   (default: every /verif/seeded/*/)
# For each kept seeded change: make a scratch worktree of /repo's HEAD outside /repo and /verif, apply the
# change there, run the quick check of its property against that tree (VERIF_REPO, no minimisation),
# remove the worktree, and record what happened in <seed-dir>/result.json. /repo itself is not touched.
# Not a registered check.
cd /verif
DIRS="$@"; test -n "$DIRS" || DIRS=$(ls -d seeded/*/)
for d in $DIRS; do
  d=${d%/}; id=$(basename $d); prop=${id##*-}
  wt=/tmp/sm_$id
  git -C /repo worktree remove --force $wt >/dev/null 2>&1
  git -C /repo worktree add --detach $wt HEAD >/dev/null 2>&1 || { echo "$id: cannot create worktree"; continue; }
  if git -C $wt apply /verif/$d/patch.diff; then
    VERIF_REPO=$wt timeout 3000 ./check $prop --tier quick --nomin > /tmp/seed_matrix_$id.out 2>&1; rc=$?
  else
    echo "$id: patch does not apply"; rc=99; : > /tmp/seed_matrix_$id.out
  fi
  git -C /repo worktree remove --force $wt; git -C /repo worktree prune
  python3 - "$d" "$prop" "$rc" "/tmp/seed_matrix_$id.out" <<'PY'
import sys,re,json
d,prop,rc,outf=sys.argv[1:5]
out=open(outf).read()
m=re.search(r'runs=(\d+) nontrivial_distinct=(\d+) violations=(\d+) known=(\d+) infra=(\d+).*wall=([\d.]+)s',out)
cl=re.search(r'violation classes \(first per run\): (.*)',out)
res={'property':prop,'check_cmd':f'VERIF_REPO=<scratch worktree with patch.diff applied> ./check {prop} --tier quick --nomin','exit_code':int(rc),
     'runs':int(m.group(1)) if m else None,'runs_with_unlisted_violation':int(m.group(3)) if m else None,
     'wall_s':float(m.group(6)) if m else None,'violation_classes':cl.group(1).strip() if cl else '',
     'caught': int(rc)==1 and 'VIOLATION property='+prop in out}
json.dump(res,open(d+'/result.json','w'),indent=1)
print(d,res['caught'],res['runs_with_unlisted_violation'],'/',res['runs'],res['violation_classes'])
PY
  rm -f /tmp/seed_matrix_$id.out
done
