#!/usr/bin/env python3
"""Generate patched copies of a few GOROOT files (go1.26.8) that remove the
runtime's own randomness (select poll order, map seeds / iteration offsets,
process hash keys, HashTrieMap seed, wall-clock forced preemption).
Go leaves all of these unspecified, so no guaranteed semantics change.
Output: <outdir>/<relpath> and <outdir>/overlay.json fragment (GOROOT path -> copy)."""
import sys, os, json, hashlib
GOROOT = "/opt/veriftools/go1.26.8"
out = sys.argv[1]
edits = {
 "src/runtime/select.go": [
  ("j := cheaprandn(uint32(norder + 1))", "j := uint32(norder) // verif: deterministic poll order"),
 ],
 "src/internal/runtime/maps/map.go": [
  ("m.seed = uintptr(rand())", "m.seed = uintptr(0x6A09E667) // verif"),
 ],
 "src/internal/runtime/maps/table.go": [
  # iteration start offsets stay pseudo-random (code samples maps by ranging over them, e.g. the
  # eviction scan and the LRU sample) but come from a process-wide counter instead of the OS
  ("it.entryOffset = rand()", "it.entryOffset = verifIterRand() // verif"),
  ("it.dirOffset = rand()", "it.dirOffset = verifIterRand() // verif"),
  ("func (it *Iter) Init(", "var verifIterCtr uint64\n\nfunc verifIterRand() uint64 {\n\tverifIterCtr += 0x9E3779B97F4A7C15\n\tx := verifIterCtr\n\tx = (x ^ (x >> 30)) * 0xBF58476D1CE4E5B9\n\tx = (x ^ (x >> 27)) * 0x94D049BB133111EB\n\treturn x ^ (x >> 31)\n}\n\nfunc (it *Iter) Init("),
 ],
 "src/runtime/alg.go": [
  ("hashkey[i] = uintptr(bootstrapRand())", "hashkey[i] = uintptr(0x51ED270B*uint64(i+1)) | 1 // verif"),
  ("key[i] = bootstrapRand()", "key[i] = 0x9E3779B97F4A7C15 * uint64(i+1) // verif"),
 ],
 "src/internal/sync/hashtriemap.go": [
  ("ht.seed = uintptr(runtime_rand())", "ht.seed = uintptr(0x1234567) // verif"),
 ],
 "src/runtime/time.go": [
  ("t.rand = cheaprand()", "verifTimerSeq++; t.rand = verifTimerSeq * 2654435761 // verif: deterministic tie order of fake timers"),
  ("type timeTimer struct {", "var verifTimerSeq uint32\n\ntype timeTimer struct {"),
 ],
 "src/runtime/proc.go": [
  ("const forcePreemptNS = 10 * 1000 * 1000 // 10ms", "const forcePreemptNS = 3600 * 1000 * 1000 * 1000 // verif: 1h"),
 ],
}
ver = open(os.path.join(GOROOT, "VERSION")).read().split()[0]
if ver != "go1.26.8":
    sys.exit("rtoverlay: unexpected toolchain %s" % ver)
ovl = {}
for rel, subs in edits.items():
    src = os.path.join(GOROOT, rel)
    s = open(src).read()
    for a, b in subs:
        n = s.count(a)
        if n == 0:
            sys.exit("rtoverlay: pattern not found in %s: %s" % (rel, a))
        s = s.replace(a, b)
    dst = os.path.join(out, rel.replace("/", "__"))
    os.makedirs(os.path.dirname(dst), exist_ok=True)
    open(dst, "w").write(s)
    ovl[src] = dst
json.dump(ovl, open(os.path.join(out, "rt_overlay.json"), "w"), indent=1)
print("rtoverlay: %d files" % len(ovl))
