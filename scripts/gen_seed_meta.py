#!/usr/bin/env python3
"""Writes seeded/<id>/meta.json from the sub-agent's own description (agent_meta.json), the
result of scripts/seed_matrix.sh (result.json) and the notes below (what was done to the checks)."""
import json, os, glob
NOTES = {
 'S1-C01': "caught at once.",
 'S1-C02': "the patch was written against 793dc50; after the later repair of syncPutOnCluster it was rebased by hand (patch.diff is the rebased one, patch_original_base_793dc50.diff the original). Caught at once.",
 'S1-C03': "missed at first (0 of ~400 runs). Two things were wrong: the generator never wrote, deleted and read one key inside the window between the routing push and the fragment move (added controller-owned hot keys h0..hN with put/del/get bursts right after every join), and a known-finding subject regexp containing a blank had been cut to '.*' by the loader and hid every deleted-key-resurrected (loader fixed, regexps use \\s). Caught in about a third of the runs since. After the repair a4e7045 restructured deleteKey (previous owners are asked before the local lock is taken) the original patch still applied but only changed the eviction path, so it was rebased by hand onto the new deleteKey with the same idea (a key present locally skips the previous owners): patch.diff is the rebased one, the demonstration fails with it and passes without it; patch_original_base_879413e.diff is the original.",
 'S1-C04': "missed at first: every chain of the check was sequential per key. Added burst phases (2-6 clients work on one key concurrently, census of all copies once everything is acknowledged). Caught since.",
 'S1-C05': "caught at once.",
 'S1-C07': "caught at once (about half of the runs).",
 'S1-C09': "missed at first: no plan rewrote a key in the tenths of a second after it had expired, while background eviction visits it. Added the rewrite-after-expiry pattern (6-90 keys with one short ttl, rewritten with Put/NX/Incr/GetPut shortly after the deadline, dense variant with few partitions). Caught since.",
 'S1-C12': "caught at once.",
 'S2-C06': "missed at first (0/383): no step made the owner's own copy go missing. Added the 'delprimary' step (DM.DELENTRY on the owner). Caught in a quarter of the runs since.",
 'S2-C08': "caught at once (few runs: it needs lockers whose NX checks overlap on the owner).",
 'S2-C10': "caught at first in 1 of 439 runs only: keys were mostly kept alive by Gets, which refresh the stamp. Keys are now kept alive per key by reads only, rewrites only (equal-length values, occasional read) or both. Caught in 8 of 477 runs since (idle mode is a quarter of the runs).",
 'S2-C11': "caught at once (half of the runs).",
 'S2-C13': "caught at once.",
 'S2-C14': "caught at once.",
 'S2-C15': "caught at once.",
 'S2-C16': "missed at first (0/377): the systematic part only enumerated vectors of length 0-2 and the partitions addressed held no data. Added 40 keys so that every partition holds a primary and a backup fragment, and a second systematic part: every valid command form with each single argument replaced by each token. Caught since (member-crash: makeslice).",
 'S3-C17': "caught at once (member-crash: slice bounds out of range when the 256-byte key is read back).",
 'S3-C18': "missed at first (0/650): the check kept values returned by Get and GetPut only. Added snap.scan: the key strings an iterator hands out are kept next to private copies and compared after the churn. Caught in 77 of 648 runs since.",
 'S3-C19': "missed at first (0/719): the check destroyed the DMap once. Added the redestroy phase (Destroy, writes through the retained embedded handles only, Destroy again at once or a little later, 1-3 rounds, then every key, copy, scan and STATS must be empty). Caught in 33 of 724 runs since.",
 'S3-C20': "missed at first (0/139): the churn was uniform over the key set. Added skewed churn (cold keys written once fill most of the oldest table of each fragment, a few hot keys are churned). Caught in 64 of 169 runs since.",
 'S3-C05': "second, independent change for C05 (distributeBackups edits the live backup-owner list in place). Missed at first: the enumerated space had no membership change. Added the 'leave' kind (a backup owner leaves or crashes while four writers put fresh keys on the coordinator, copies counted after every acknowledged Put, 7/71/271 partitions). Caught in 2 of 229 runs since; with the change some runs also fail to form a stable cluster (reported as infra-note, not as a violation of C05).",
 'S4-C01': "second change for C01 (storage engine keeps a superseded version when an overwrite rolls over to a new table; compaction copies it back). Caught at once by C01 (8/771 not-linearizable) and by C11.",
 'S4-C04': "second change for C04 (PutRaw on a backup leaves a hidden stale version in an older table; compaction brings it back). Missed at first (0/178): chains used 1-3 keys, so backup fragments never had several tables, and copies were only compared right after an operation. Added filler traffic on other keys and a settled census after background work. Caught since.",
 'S4-C06': "second change for C06 (sortVersions picks the last version at least as new as the first instead of the newest, needs >= 3 differing copies). Caught at once (22/146 get-not-newest).",
 'S4-C07': "second change for C07 (per-operation-kind key locks: Incr and Decr no longer exclude each other). Caught at once (186/465).",
 'S4-C09': "second change for C09 (Incr that straddles the deadline drops the ttl). Missed at first (0/295): between the expiry check and the computation of the remaining lifetime no simulated time could pass. The instrumenter now makes every statement that reads the clock a scheduling point, C09 got sub-millisecond probe phases, more Incr/Decr probes and a variant with many short pauses. Caught since (2/221).",
 'S4-C12': "second change for C12 (literal MATCH patterns compared with HasPrefix). Missed at first (0/698): every pattern of the check was anchored or matched at position 0. Added unanchored literals, classes and alternatives. Caught since (92/231).",
 'S4-C14': "second change for C14 (Publish releases the registry lock before it writes). Missed at first (0/849): the oracle had no frame-order rule (a message read after the UNSUBSCRIBE acknowledgement on the same connection) and subscriptions rarely changed during a PUBLISH. Added the rule (acknowledgement frames are stamped by the connection reader) and a churn variant. Caught since (85/359 message-after-unsubscribe).",
 'S4-C15': "second change for C15 (multi-key Delete drops keys through stale slice pointers). Caught at once (75/134).",
 'S5-C08': "second change for C08 (the lock timeout is turned into an absolute expiry when Lock is called, so a Lock that had to wait holds the lock for less than its timeout, or not at all). Missed at first (0/116): the oracle counted a timed hold from the invocation of Lock, which is exactly what the change does. The hold is now counted from the acquisition (at most one round trip before Lock returned). Caught since (35 of ~119: holder-lost-lock, mutual-exclusion).",
 'S5-C10': "second change for C10 (LRU eviction inside Put releases the fragment lock for its network calls). Missed at first (0/479): all Puts of the check came from one sequential client. Added a burst phase (2-6 writers insert fresh keys concurrently, bounds checked when they are done). Caught since (54 runs: maxkeys-exceeded, maxinuse-exceeded).",
 'S5-C11': "second change for C11 (Reset before the table is unregistered: the wrong table loses its registration). Caught at once (scan-duplicate, scan-yields-absent-key).",
 'S5-C16': "second change for C16 (DM.PUT option loop reads past the end when a later option has no value). Caught at once (106/127 member-crash) by the single-substitution sweep.",
 'S5-C17': "second change for C17 (table.Encode ships only the first inuse bytes: truncated when the table contains garbage). Missed at first (0/175): every key was written once before the migration. Added overwrites and delete/rewrite of part of the keys before the join. Caught since (value-does-not-decode, value-differs after-join).",
 'S5-C18': "second change for C18 (Put keeps the caller's slice and encodes it in the asynchronous replication goroutine). Missed at first (0/631): the check never used asynchronous replication. Added an async variant with embedded Puts on the owner and a census of all copies after the caller scribbled over its buffer; ordering effects of asynchronous replication (an older value on a backup) are deliberately not judged by C18. Caught since (61/682 put-buffer-aliased).",
 'S5-C19': "second change for C19 (Destroy swallows transport errors of the per-member call). Missed at first (0/317): no fault was ever injected during a Destroy. Added a variant in which the member running Destroy cannot reach another member (refused or black-holed): Destroy must report the failure or everything must be gone; a second Destroy after the heal must succeed. Also fixed a false alarm of the check this exposed (a ttl running out before the final scan of the other DMap). Caught since (56/217 key-survived-destroy).",
 'S5-C20': "second change for C20 (backup fragments are never compacted). Caught at once (allocation-unbounded / garbage-above-threshold on backup).",
 'S6-C01': "third change for C01 (lock-free fast path in loadOrCreateFragment: two first writers of a partition each create a fragment, one is orphaned). Caught weakly at first (1/435): concurrent first writes to an untouched partition only happened at the very start of a run. Added the fresh variant (phases as barriers: all clients start on the same untouched DMap at once, pause-heavy). Caught since (13/257).",
 'S6-C02': "third change for C02 (deleteBackupOnCluster skips this member although it may hold a backup fragment after a promotion). Caught at once (delete-undone, post-failure-wrong-read).",
 'S6-C03': "third change for C03 (the janitor checks that a fragment is empty under the shared lock and wipes it under the write lock without looking again). Missed by C03 and C01 at first: between a check and the next lock acquisition no goroutine could be descheduled in the simulator (scheduling points were function entries and clock reads only). Lock acquisition is now a scheduling point as well (simsync), and C01/C03 got a janitor variant (1-3 ms period, pause-heavy, delete/rewrite churn). Caught by C01 since (2/340: an acknowledged Put into an empty fragment is wiped); C03's own hand-over scenario needs three coincidences and was not hit in a quick run. Listed under C03 with the C01 result.",
 'S6-C04': "third change for C04 (Delete removes the backup copies before it takes the primary fragment's lock). Caught at once by the burst phases (6/151 backup-presence-differs/burst).",
 'S6-C05': "third change for C05 (fail-fast bound in the replication loop off by one: a Put is rejected when exactly WriteQuorum copies are reachable). Caught at once by the enumerated space (46/201 put-failed-although-quorum-met).",
 'S6-C13': "third change for C13 (left-over data report appends the member at the owner position on the coordinator). Missed at first (0/137): the divergence heals at the next routing push, before stabilisation is observed, and C13 had no writes during membership changes. Added a writer of fresh keys during the events and an invariant sampled whenever stabilisation is polled: members that applied the same pushed table (equal routing signature, new accessor) name the same owner for every partition. Caught since (2/120 owner-differs-under-equal-signature).",
 'S7-C06': "third change for C06 (merge into a member that had no fragment at check time skips the newest-timestamp comparison; the check runs before the locks). Missed at first (0/191): all conflicts of the check were built sequentially. Added concurrent deliveries of 2-3 fragment packs with different timestamps into an untouched DMap (pause-heavy). Caught since (34/382 merge-not-newest).",
 'S7-C07': "third change for C07 (backups ignore replicated entries with an older timestamp; atomic ops take their timestamp before the key lock). Caught at once (195/660).",
 'S7-C09': "third change for C09 (the owner's expired newest version is dropped from the version list, an older copy without ttl on a backup wins). Missed at first (0/619): backups never missed a ttl update. Added the missed-backup phase (R=2, the owner cannot reach the backup while Expire / Put PX is applied, heal, probe after the deadline). While doing so a generator bug was found: half of the C09 plans had no phases at all since the rewrite-after-expiry block was added (Phases was assigned inside it); fixed. Caught since.",
 'S7-C12': "third change for C12 (client iterators drop an owner when a page comes back empty with a non-zero cursor). Caught at once (39/224).",
 'S7-C14': "third change for C14 (PUBLISH swallows the error of forwarding to another member). Missed at first (0/257): no fault between members during a PUBLISH. Added a variant in which one member cannot reach another for a while; a PUBLISH that fails in that window is legal, one that is acknowledged must have been delivered (at least once: the client library re-sends after a time-out). Caught since (message-not-delivered, publish-count).",
 'S7-C15': "third change for C15 (pipelined GetPut keeps a slice into a pooled buffer that is recycled before Exec). Missed at first (0/288): the check had no pipeline path although the property names it. Added a sixth path: the same abstract sequence inside pipelines of the cluster client (batches of 2-5 commands), expanded for the sequential model. Caught since.",
 'S7-C16': "third change for C16 (partition id equal to the partition count passes the range check of INTERNAL.NODE.LENGTHOFPART). Caught at once by the enumerated vectors (93/117 member-crash).",
 'S7-C20': "third change for C20 (in-place overwrite with a shorter value leaves slack bytes counted as in use; compaction of such a table never finishes). Caught at once (allocation-unbounded, garbage-above-threshold).",
 'S3-C02': "second, independent change for C02 (fragment.Move releases the fragment lock while the table travels). Missed by C02 at first (caught by C03): deletes rarely coincided with the re-replication moves after a stop. Added the sweeper variant (slow network, 4 clients deleting their own keys one by one through the failure, 7 partitions). Caught by C02 since, rarely (3 of 192 runs); C03 catches it more often (6 of 246).",
 'S3-C03': "second, independent change for C03 (fragment.Move drops the table although the target refused it). Caught at once (key-lost).",
 'S3-C13': "second, independent change for C13 (stale backup owners when the cluster shrinks to one member). Caught at once (not-stabilised).",
}
for d in sorted(glob.glob('/verif/seeded/*/')):
    sid = os.path.basename(d.rstrip('/'))
    a = json.load(open(d + 'agent_meta.json')) if os.path.exists(d + 'agent_meta.json') else {}
    r = json.load(open(d + 'result.json')) if os.path.exists(d + 'result.json') else None
    prop = sid.split('-')[-1]
    demos = sorted(f for f in os.listdir(d) if f.endswith('_test.go'))
    meta = {
        'id': sid, 'property': prop,
        'summary': a.get('summary', ''),
        'needs_to_manifest': a.get('needs', ''),
        'demonstration': {'files': demos, 'how': a.get('demo', '')},
        'existing_tests_reported_by_author': a.get('tests_run', ''),
        'confirmed_by_me': [
            'in the author\'s scratch worktree: go build ./... succeeds with the change; the demonstration fails with the change and passes with patch.diff reverse-applied (one run each way by me, 10 each way by the author)',
            'git -C /repo apply --check patch.diff on the current HEAD of /repo (all fix: commits included)',
            'scratch worktree of /repo HEAD + patch.diff, VERIF_REPO=<worktree> ./check %s --tier quick --nomin (scripts/seed_matrix.sh; result in check_result)' % prop,
        ],
        'check_result': r,
        'notes': NOTES.get(sid, ''),
    }
    json.dump(meta, open(d + 'meta.json', 'w'), indent=1)
    print(sid, 'ok', 'result' if r else 'no result yet')
