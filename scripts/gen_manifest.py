#!/usr/bin/env python3
"""Writes /verif/MANIFEST.json from the table below (kept next to the checks so the two stay in step)."""
import json, os
V = os.path.dirname(os.path.dirname(os.path.abspath(__file__)))
ids = [json.loads(l)['id'] for l in open(os.path.join(V, 'properties.jsonl'))]
baseline = json.load(open('/root/.vp/BASELINE.json'))['cmd'] if os.path.exists('/root/.vp/BASELINE.json') else "cd /repo && go test ./..."
SIM = "deterministic simulation with fault injection (seeded schedules over real olric+memberlist+redcon+go-redis in one synctest bubble)"
NOTE = "Trusts the simulator seams (simnet, simsync, fake clock) and that the mechanical source rewrite preserves olric's semantics; 1 P per run; sampling."
claimed = {
 "C06": dict(level="exploration", design="DESIGN.md §8 C06",
   text="Seeded search: conflicting copies with chosen timestamps (older / tie / newer than the newest existing copy, missing copies) are constructed with the replication commands themselves - DM.PUTENTRY and DM.DELENTRY RC on chosen backups, Puts that a cut-off backup misses, fragment packs delivered with INTERNAL.NODE.MOVEFRAGMENT to primary or backup owners in seeded order and repeatedly - in a stable cluster with read-repair on or off; a census of every copy before and after each step decides: Get returns a maximal-timestamp copy, a merge keeps the newest regardless of order and repetition, one Get with read-repair equalises the owner's and the existing backup copies, and changes nothing without it.",
   note=NOTE + " No per-member clock skew exists in the simulator (one bubble clock): conflicts are constructed, not produced by skew. Copies on previous owners arise only in C03.", technique=SIM + "; copy-census oracle around planted conflicts"),
 "C14": dict(level="exploration", design="DESIGN.md §8 C14",
   text="Seeded search: 2-6 raw RESP subscriber connections spread over 1-3 members run scripts of SUBSCRIBE / PSUBSCRIBE / UNSUBSCRIBE / PUNSUBSCRIBE / disconnect over matching, non-matching, overlapping and duplicate channels and patterns while 1-3 publishers send uniquely numbered messages through different members; a reference subscription table (updated at acknowledgements, with invoke/return uncertainty) decides which deliveries are required, allowed and forbidden, checks per-publisher order, the PUBLISH return value, and PUBSUB CHANNELS/NUMSUB/NUMPAT at a quiescent tail.",
   note=NOTE, technique=SIM + "; reference subscription table over the recorded history"),
 "C16": dict(level="exploration", design="DESIGN.md §8 C16",
   text="All argument vectors of length 0-2 over a 35-token alphabet for 33 command names (public, internal, unknown, mixed case) are enumerated in batches (one batch per run, every batch in every tier); each run adds 200 mutated valid command forms and random byte streams. Every input is written in seeded segments to a simulated connection of a 2-member cluster, followed by a tagged PING on the same connection, fresh connections every 25 inputs, and ordinary traffic on a second connection. A handler panic kills the worker process and a spinning handler gets it killed from outside: both are reported with the offending batch as the replay.",
   note=NOTE + " Input generation decides most of this property; the simulator contributes segmentation, cross-connection interleaving, the liveness probes and the crash/hang observation. The in-bubble member stands in for an olric-server process.", technique=SIM + "; systematic short-vector enumeration + mutation fuzzing with liveness probes"),
 "C18": dict(level="exploration", design="DESIGN.md §8 C18",
   text="Seeded search: the very byte slices and strings handed out by Get/GetPut (embedded and cluster client) are kept with private copies while the store is churned so that their memory is reused - overwrites, deletes, table-recycling fills, compaction and idle-table release on the simulated clock, a join that migrates the partition; kept values must not change, overwriting them in place must not affect fresh reads through other clients, and buffers passed to Put are scribbled over right after Put returns.",
   note=NOTE + " In-process observation: the harness keeps the exact slices the API returned.", technique=SIM + "; retained-alias comparison after memory-reusing churn"),
 "C17": dict(level="exploration", design="DESIGN.md §8 C17",
   text="Seeded samples from boundary sets of every supported value type stored under keys of 0-255 arbitrary bytes through the embedded or cluster client and read back into the same type through the other client, and again after a member joined and partitions migrated (R 1-2); too long keys and entries of table size -1/0/+1/x2 must be rejected with the documented errors and leave neighbours intact. The simulator contributes replication, migration between write and read and the kill-from-outside watchdog that turns an endless loop or a panic into a reported violation.",
   note=NOTE + " The value space is sampled (input generation); the simulated part is replication/migration between the write and the read.", technique=SIM + "; typed round-trip oracle across replication and migration"),
 "C19": dict(level="exploration", design="DESIGN.md §8 C19",
   text="Seeded search: two DMaps with colliding name+key concatenations and identical keys, one optionally eviction-bounded, sequential chains on both through all entry points, a Destroy of one while another client writes to the other; afterwards reads through every member, scans, DM.GETENTRY census and STATS must show the destroyed DMap empty on primaries and backups yet writable, and the other DMap equal to its sequential model (values, ttls, lock).",
   note=NOTE, technique=SIM + "; sequential model per DMap + emptiness census after Destroy"),
 "C10": dict(level="exploration", design="DESIGN.md §8 C10",
   text="Seeded search in three modes: MaxKeys (incl. below the partition count) and MaxInuse with LRU eviction - STATS after every Put checks per-partition shares, no Put fails, the fresh key is readable; MaxIdleDuration on the simulated clock - keys touched inside the window stay readable, after a quiet period of window + enough eviction rounds every key reads not-found.",
   note=NOTE, technique=SIM + "; bound invariants over STATS after every Put, bounded-liveness check on the fake clock"),
 "C20": dict(level="exploration", design="DESIGN.md §8 C20",
   text="Seeded churn workloads (overwrite / delete / ttl expiry) over a fixed key set with tiny tables, short compaction and idle-table intervals, R 1-2; the simulated clock is then advanced until compaction settles and STATS is read from every member: in-use bytes equal the live (plus not-yet-evicted expired) entries on primaries and backups, per-fragment allocation and garbage stay within bounds derived from the 40 % threshold, allocation does not grow while idle.",
   note=NOTE, technique=SIM + "; accounting and bound oracle over STATS after simulated settle time"),
 "C12": dict(level="exploration", design="DESIGN.md §8 C12",
   text="Seeded search: a history of inserts, overwrites, deletes and compaction/idle-table release shapes the tables, then complete iterations through EmbeddedDMap.Scan, ClusterDMap.Scan and raw DM.SCAN cursors per partition (primary and RC) with every COUNT class and MATCH patterns run while writers churn other keys and compaction runs; oracle: termination, every stable key yielded (once by iterators), nothing deleted-before or never-stored yielded, MATCH exact.",
   note=NOTE, technique=SIM + "; stable-set inclusion/exclusion oracle over concurrent iteration"),
 "C11": dict(level="exploration", design="DESIGN.md §8 C11",
   text="Seeded sequences of storage.Engine calls (Put, PutRaw, Delete, UpdateTTL, compaction steps, table export/import/drop into a second store, clock advances that release idle tables) on a forked kvstore with tiny tables, inside the simulator's fake clock; after every step lookups, Stats().Length, Range and Scan (page sizes, patterns) are compared with a reference map; short sequences over a small alphabet are sampled densely, long ones randomly.",
   note="The store is single-threaded under the fragment lock, so the explored 'schedule' is the order of foreground calls, background steps and clock advances; the engine code is also exercised in-cluster by C01/C03/C12/C20.", technique=SIM + "; reference-map oracle over interleaved foreground/background engine steps"),
 "C05": dict(level="fault_enumeration", design="DESIGN.md §8 C05",
   text="The configuration x fault space is finite (172 points: all (R,W,RQ) with W,RQ<=R<=3, N in {R,R+1}, every number of RESP-unreachable backup owners, refused or black-holed; N x MemberCountQuorum x partition sizes) and is enumerated completely in every tier; seeds vary latencies, schedules and the entry path on top. Oracle: Put acknowledged iff reachable copies >= W with the write-quorum error otherwise, copies counted by DM.GETENTRY census; Get iff >= RQ copies; members below MemberCountQuorum answer every RESP request and NewDMap with the cluster-quorum error and apply nothing.",
   note=NOTE + " 'Unreachable' = RESP-class link fault between the primary owner and a backup while gossip keeps flowing.", technique=SIM + "; complete enumeration of the quorum/fault configuration space"),
 "C08": dict(level="exploration", design="DESIGN.md §8 C08",
   text="Seeded search over competing lockers on all entry points with timeouts, deadlines and hold times drawn around each other, leases, stale and forged tokens and minutes-long clock jumps; interval oracle on the simulated clock: mutual exclusion of certain-hold intervals, deadline lower bound, token safety, no early release, acquisition within timeout + retry period + latency.",
   note=NOTE, technique=SIM + "; interval oracle on the fake clock"),
 "C03": dict(level="exploration", design="DESIGN.md §8 C03",
   text="Seeded search over join/leave/crash sequences with single-writer-per-key traffic running through the hand-over: every read during the hand-over must return the last acknowledged value, and after bounded re-stabilisation every member returns it, a full scan yields exactly the live keys, DM.GETENTRY on every member shows exactly one primary copy and the backup copies a key had before the joins; departures happen only when every asserted key has its backup copies (checked at run time).",
   note=NOTE, technique=SIM + "; membership-change injection + single-writer history oracle + copy census"),
 "C02": dict(level="exploration", design="DESIGN.md §8 C02",
   text="Seeded search over failure instants: single-writer-per-key workloads run while up to R-1 members (owner/backup of a hot key, coordinator, bystander) leave gracefully or crash (reset or silence), including at instants with RESP traffic in flight; after bounded re-stabilisation every key is read through every survivor and compared with the acknowledged history (errors = indeterminate writes), then a fault-free phase must behave sequentially.",
   note=NOTE + " Crash = atomic cut from the network; nothing of a crashed member survives (olric has no durable state).", technique=SIM + "; crash/leave injection + acknowledged-history oracle"),
 "C13": dict(level="exploration", design="DESIGN.md §8 C13",
   text="Seeded search over membership histories (join, graceful leave, crash with reset or silence, restart under the same address, coordinator departure) with gossip loss/duplication; after a bounded stabilisation wait every member's own view, CLUSTER.ROUTINGTABLE, CLUSTER.MEMBERS, STATS and a ClusterClient table are validated for agreement, ownership validity, load bound and coordinator identity; exceeding the bound is a liveness violation.",
   note=NOTE, technique=SIM + "; routing-table invariants after bounded re-stabilisation"),
 "C04": dict(level="exploration", design="DESIGN.md §8 C04",
   text="Seeded search: sequential chains of mutating operations with every option combination through random entry points, concurrent chains on neighbouring keys, background eviction/compaction running; after every acknowledged op every stored copy is read with DM.GETENTRY [RC] on every member and compared (value, ttl, timestamp, presence).",
   note=NOTE, technique=SIM + "; copy-equality invariant after every acknowledged op"),
 "C07": dict(level="exploration", design="DESIGN.md §8 C07",
   text="Seeded search over interleavings of 2-8 concurrent Incr/Decr/IncrByFloat/GetPut callers on all entry points with yields between read and write; returned values checked with porcupine against a counter/register model, plus conservation (final = initial + sum of acknowledged deltas) and GetPut chain uniqueness.",
   note=NOTE, technique=SIM + "; porcupine + conservation oracle"),
 "C09": dict(level="exploration", design="DESIGN.md §8 C09",
   text="Seeded search: TTLs established in every form, then reads and conditional writes placed -2..+2 ms around the deadline (and far after) on the simulated clock through every entry point; results compared with millisecond exactness against a sequential expiry model (set-of-possible-states, uncertainty only inside the deadline millisecond).",
   note=NOTE, technique=SIM + "; sequential expiry reference model on the fake clock"),
 "C15": dict(level="exploration", design="DESIGN.md §8 C15",
   text="Differential: one abstract operation sequence is executed on path-private keys through embedded-owner, embedded-non-owner, cluster client, raw RESP to owner and raw RESP to non-owner; every path must equal the sequential model (value, ttl, presence, delete count), hence every other path.",
   note=NOTE, technique=SIM + "; differential against a sequential reference model"),
 "C01": dict(level="exploration", design="DESIGN.md §8 C01",
   text="Seeded search over schedules: concurrent clients on all entry points against a stable simulated cluster; every per-key history is checked for linearizability with porcupine against a register-with-NX/XX/Delete model. Sampling, not proof.",
   note="Trusts the simulator seams (simnet, simsync, fake clock), porcupine, and that the mechanical source rewrite preserves olric's semantics; 1 P per run.",
   technique=SIM + "; porcupine linearizability oracle"),
}
checks = []
for i in ids:
    if i not in claimed: continue
    c = claimed[i]
    checks.append({
      "property_id": i,
      "quick_cmd": "./check %s --tier quick" % i,
      "thorough_cmd": "./check %s --tier thorough" % i,
      "evidence_file": "evidence/%s.json" % i,
      "replay_cmd_template": "./check %s --replay {path}" % i,
      "engine": "olric-dsim",
      "level_claimed": {"category": c["level"], "text": c["text"], "design_ref": c["design"]},
      "level_note": c["note"],
      "technique": c["technique"],
    })
na = {}
m = {
 "version": 1,
 "setup_cmd": "./check warmup",
 "hooks": {"guard": "verif-overlay",
   "enable": "no source hook is committed in /repo: bin/instrument rewrites the working tree into a scratch dir and the worker is built with go1.26.8 test -c -overlay <scratch>/overlay.json ./worker",
   "baseline_off_cmd": baseline, "source_commits": [], "add_only": True},
 "engines": [{"name": "olric-dsim", "path": "cmd/check", "serves_properties": [c["property_id"] for c in checks],
   "kind_free_text": "deterministic whole-cluster simulator: kernel sim/simrt, network sim/simnet, locks sim/simsync, executor sim/exec, oracles props/"}],
 "checks": checks,
 "not_applicable": [{"property_id": i, "reason": na.get(i, "check not built yet (work in progress; design in DESIGN.md section 8)")} for i in ids if i not in claimed],
 "notes": "Exit codes: 0 held (KNOWN-FINDING lines possible), 1 VIOLATION, 2 infrastructure. VERIF_SEED selects the base seed.",
}
json.dump(m, open(os.path.join(V, 'MANIFEST.json'), 'w'), indent=1)
print("manifest: %d checks, %d not claimed" % (len(checks), len(m["not_applicable"])))
