#!/usr/bin/env python3
"""Writes /verif/MANIFEST.json from the table below (kept next to the checks so the two stay in step)."""
import json, os
V = os.path.dirname(os.path.dirname(os.path.abspath(__file__)))
ids = [json.loads(l)['id'] for l in open(os.path.join(V, 'properties.jsonl'))]
baseline = json.load(open('/root/.vp/BASELINE.json'))['cmd'] if os.path.exists('/root/.vp/BASELINE.json') else "cd /repo && go test ./..."
SIM = "deterministic simulation with fault injection (seeded schedules over real olric+memberlist+redcon+go-redis in one synctest bubble)"
claimed = {
 "C01": dict(level="exploration", design="DESIGN.md §8 C01",
   text="Seeded search over schedules: concurrent clients on all entry points against a stable simulated cluster; every per-key history is checked for linearizability with porcupine against a register-with-NX/XX/Delete model. Sampling, not proof.",
   note="Trusts the simulator seams (simnet, simsync, fake clock), porcupine, and that the mechanical source rewrite preserves olric's semantics; 1 P per run.",
   technique=SIM + "; porcupine linearizability oracle"),
}
checks = []
for i in ids:
    if i not in claimed: continue
    c = claimed[i]
    checks.append({
      "property_id": i,
      "quick_cmd": "./check %s --tier quick" % i,
      "thorough_cmd": "./check %s --tier thorough" % i,
      "evidence_file": "evidence/%s.json" % i,
      "replay_cmd_template": "./check %s --replay {path}" % i,
      "engine": "olric-dsim",
      "level_claimed": {"category": c["level"], "text": c["text"], "design_ref": c["design"]},
      "level_note": c["note"],
      "technique": c["technique"],
    })
na = {}
m = {
 "version": 1,
 "setup_cmd": "./check warmup",
 "hooks": {"guard": "verif-overlay",
   "enable": "no source hook is committed in /repo: bin/instrument rewrites the working tree into a scratch dir and the worker is built with go1.26.8 test -c -overlay <scratch>/overlay.json ./worker",
   "baseline_off_cmd": baseline, "source_commits": [], "add_only": True},
 "engines": [{"name": "olric-dsim", "path": "cmd/check", "serves_properties": [c["property_id"] for c in checks],
   "kind_free_text": "deterministic whole-cluster simulator: kernel sim/simrt, network sim/simnet, locks sim/simsync, executor sim/exec, oracles props/"}],
 "checks": checks,
 "not_applicable": [{"property_id": i, "reason": na.get(i, "check not built yet (work in progress; design in DESIGN.md section 8)")} for i in ids if i not in claimed],
 "notes": "Exit codes: 0 held (KNOWN-FINDING lines possible), 1 VIOLATION, 2 infrastructure. VERIF_SEED selects the base seed.",
}
json.dump(m, open(os.path.join(V, 'MANIFEST.json'), 'w'), indent=1)
print("manifest: %d checks, %d not claimed" % (len(checks), len(m["not_applicable"])))
