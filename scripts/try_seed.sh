#!/bin/sh
# usage: scripts/try_seed.sh <patch.diff> <PROP> [seconds]   applies the patch to /repo, runs the check, reverts
set -e
P=$1; ID=$2; S=${3:-40}
cd /repo
test -z "$(git status --porcelain)" || { echo "/repo not clean"; exit 2; }
git apply "$P"
cd /verif
set +e
timeout 1800 ./check $ID --seconds $S --nomin > /tmp/try_seed.out 2>&1
rc=$?
set -e
git -C /repo checkout -- .
git -C /repo clean -fdq
grep -v "^\s\s\s" /tmp/try_seed.out | grep "^VIOLATION\|class=\|violation classes\|^runs=\|^INFRA\|x member" | cut -c1-260 | head -12
echo "rc=$rc"
