#!/bin/sh
# usage: scripts/debug_replay.sh <replay.json>   -> builds a worker from the current /repo tree and runs the plan with olric logs (stderr)
set -e
cd /verif
export GOFLAGS=-mod=mod GOPROXY=off GOSUMDB=off GOTOOLCHAIN=local
D=$(mktemp -d)
python3 -c "import json,sys; r=json.load(open(sys.argv[1])); json.dump(r.get('plan',r),open(sys.argv[2],'w'))" "$1" $D/plan.json
bin/instrument -repo /repo -out $D -merge bin/rtoverlay/rt_overlay.json -acc /verif/accessors >/dev/null
go1.26.8 test -c -overlay $D/overlay.json -o $D/simworker ./worker
VERIF_LOG=${VERIF_LOG:-1} GODEBUG=asyncpreemptoff=1 $D/simworker -test.run TestSim -plan $D/plan.json -history -out ${OUT:-/tmp/debug_result.json} || true
rm -rf $D
