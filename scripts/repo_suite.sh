#!/bin/sh
# usage: scripts/repo_suite.sh [n] [commit]   (default: 1 run of /repo's HEAD)
# Runs the repository's own test suite (the pinned command of /root/.vp/BASELINE.json, one module) n times in a
# scratch worktree outside /repo and /verif and lists the tests of the baseline's stable-pass set that failed.
# Not a registered check; used after every "fix:" commit. Run it on an otherwise idle machine.
N=${1:-1}; REV=${2:-HEAD}
export GOFLAGS=-mod=mod GOPROXY=off GOSUMDB=off
WT=/tmp/repo_suite_wt
git -C /repo worktree remove --force $WT >/dev/null 2>&1
git -C /repo worktree add --detach $WT $REV >/dev/null 2>&1 || { echo "cannot create worktree"; exit 2; }
cd $WT
i=1
while [ $i -le $N ]; do
  go test -mod=mod -json -vet=off -count=1 -timeout 25m ./... > /tmp/repo_suite_$i.json 2>/dev/null
  python3 - /tmp/repo_suite_$i.json $i <<'PY'
import json,sys
base=json.load(open('/root/.vp/BASELINE.json'))
stable=set(base['stable_pass'])
res={}
for l in open(sys.argv[1]):
    try: e=json.loads(l)
    except Exception: continue
    if e.get('Test') and e.get('Action') in('pass','fail','skip'):
        res[e['Package']+'::'+e['Test']]=e['Action']
    if not e.get('Test') and e.get('Action')=='fail':
        res[e['Package']+'::<package>']='fail'
failed=sorted(k for k,v in res.items() if v=='fail')
missing=sorted(k for k in stable if k not in res)
print(f"run {sys.argv[2]}: {sum(1 for v in res.values() if v=='pass')} passed, {len(failed)} failed, {len(missing)} stable tests without a result")
for k in failed: print("  FAIL", k, "(stable at baseline)" if k in stable else "")
for k in missing[:10]: print("  MISSING", k)
PY
  rm -f /tmp/repo_suite_$i.json
  i=$((i+1))
done
cd /; git -C /repo worktree remove --force $WT; git -C /repo worktree prune
