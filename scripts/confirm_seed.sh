#!/bin/sh
# usage: scripts/confirm_seed.sh <ID> <pkg> <run-regexp>   (worktree /tmp/wt_<ID> has the change applied and the demo in place)
# confirms: builds; demo fails with the change; demo passes without it; restores the change
export GOFLAGS=-mod=mod GOPROXY=off GOSUMDB=off
ID=$1; PKG=$2; RE=$3
cd /tmp/wt_$ID || exit 2
git apply --check -R /tmp/seed_$ID/patch.diff || { echo "patch not applied in worktree"; exit 2; }
go build ./... || { echo "BUILD FAILS"; exit 1; }
if go test -count=1 -run "$RE" $PKG >/tmp/confirm_with.log 2>&1; then W=pass; else W=fail; fi
git apply -R /tmp/seed_$ID/patch.diff
if go test -count=1 -run "$RE" $PKG >/tmp/confirm_without.log 2>&1; then O=pass; else O=fail; fi
git apply /tmp/seed_$ID/patch.diff
echo "$ID demo with-change=$W without-change=$O"
